//go:build verif

package unit

import (
	"encoding/json"

	"github.com/resgateio/resgate/server/codec"
)

func replayLCS(parts []string) string {
	if len(parts) != 2 {
		return ""
	}
	var a, b []codec.Value
	if json.Unmarshal([]byte(parts[0]), &a) != nil || json.Unmarshal([]byte(parts[1]), &b) != nil {
		return ""
	}
	return checkLCS(a, b)
}
