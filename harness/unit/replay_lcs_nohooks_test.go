//go:build !verif

package unit

func replayLCS(parts []string) string { return "" }
