package unit

import (
	"encoding/json"
	"flag"
	"fmt"
	"net/url"
	"sort"
	"strings"
	"sync"
	"testing"

	"github.com/resgateio/resgate/server"
	"github.com/resgateio/resgate/server/codec"
	"github.com/resgateio/resgate/server/rescache"
	"github.com/resgateio/resgate/server/rpc"
	"pgregory.net/rapid"
	"verif/harness/sim"
)

var (
	flagProp   = flag.String("verif.prop", "", "unit target id")
	flagOut    = flag.String("verif.out", "", "output directory")
	flagShard  = flag.Int("verif.shard", 0, "shard")
	flagTier   = flag.String("verif.tier", "quick", "tier")
	flagReplay = flag.String("verif.replay", "", "replay file")
)

type target struct {
	prop string
	run  func(t *rapid.T, env *sim.Env)
}

var targets = map[string]target{}

func reg(id, prop string, f func(t *rapid.T, env *sim.Env)) { targets[id] = target{prop, f} }

// TestUnit runs one pure-function target under rapid.
func TestUnit(t *testing.T) {
	tg, ok := targets[*flagProp]
	if !ok {
		t.Skipf("unknown target %q", *flagProp)
	}
	env := sim.NewEnv(tg.prop, *flagOut, *flagShard, *flagTier)
	defer env.Write()
	rapid.Check(t, func(rt *rapid.T) { tg.run(rt, env) })
}

// fail records a failing input as a replay file and fails the case.
func fail(t *rapid.T, env *sim.Env, prop, class, input, msg string) {
	rf := &sim.ReplayFile{Property: prop, Profile: *flagProp, Class: class, Message: msg, Text: input}
	env.Stats.Violations++
	p := env.WriteFail(rf)
	// WriteFail overwrites Text with the (empty) script; store the input again
	rf.Text = input
	b, _ := json.MarshalIndent(map[string]interface{}{"property": prop, "engine": "unit", "target": *flagProp, "class": class, "message": msg, "input": input}, "", " ")
	if p != "" {
		writeFile(p, b)
	}
	t.Fatalf("VIOLATION %s class=%s: %s\ninput: %q\nreplay: %s", prop, class, msg, input, p)
}

// ---------------------------------------------------------------------------
// generators

var tokenAlphabet = []string{"a", "b", "ab", "*", ">", "?", " ", "é", "", "a*", "*a", "a>", "\t", "\x7f", "~", "!"}

func genDotted(t *rapid.T, label string, maxTokens int) string {
	n := rapid.IntRange(0, maxTokens).Draw(t, label+"n")
	toks := make([]string, n)
	for i := range toks {
		toks[i] = rapid.SampledFrom(tokenAlphabet).Draw(t, label)
	}
	return strings.Join(toks, ".")
}

// ---------------------------------------------------------------------------
// C12: resource pattern matcher (differential against the reference matcher)

func init() {
	reg("C12-pattern", "C12", func(t *rapid.T, env *sim.Env) {
		var p, name string
		if rapid.IntRange(0, 3).Draw(t, "mode") == 0 {
			p = rapid.StringOfN(rapid.RuneFrom([]rune("ab.*>? é")), 0, 12, -1).Draw(t, "p")
			name = rapid.StringOfN(rapid.RuneFrom([]rune("ab.")), 0, 12, -1).Draw(t, "name")
		} else {
			p = genDotted(t, "p", 5)
			// names: valid resource names, often derived from the pattern
			n := rapid.IntRange(1, 5).Draw(t, "nn")
			toks := make([]string, n)
			pt := strings.Split(p, ".")
			for i := range toks {
				if i < len(pt) && pt[i] != "*" && pt[i] != ">" && pt[i] != "" && rapid.IntRange(0, 3).Draw(t, "same") > 0 {
					toks[i] = pt[i]
				} else {
					toks[i] = rapid.SampledFrom([]string{"a", "b", "ab", "c"}).Draw(t, "tok")
				}
			}
			name = strings.Join(toks, ".")
		}
		rp := rescache.ParseResourcePattern(p)
		wantValid := sim.RefPatternValid(p)
		if rp.IsValid() != wantValid {
			fail(t, env, "C12", "pattern_validity", p, fmt.Sprintf("ParseResourcePattern(%q).IsValid()=%v, reference says %v", p, rp.IsValid(), wantValid))
		}
		nameValid := name != "" && !strings.Contains(name, "..") && !strings.HasPrefix(name, ".") && !strings.HasSuffix(name, ".")
		got := false
		if nameValid {
			got = rp.Match(name)
			want := sim.RefPatternMatch(p, name)
			if got != want {
				fail(t, env, "C12", "pattern_match", p+"\x00"+name, fmt.Sprintf("pattern %q Match(%q)=%v, reference says %v", p, name, got, want))
			}
		}
		nt := wantValid && strings.ContainsAny(p, "*>") && nameValid
		env.Record(p+"|"+name, nt, map[string]int{"valid_pattern": b2i(wantValid), "wildcard": b2i(strings.ContainsAny(p, "*>")), "matched": b2i(got)})
	})
}

func b2i(b bool) int {
	if b {
		return 1
	}
	return 0
}

// ---------------------------------------------------------------------------
// C05: CanCall against the split oracle

func init() {
	methods := []string{"set", "se", "sett", "get", "t", "s", "*", "", "new", "set,get"}
	reg("C05-cancall", "C05", func(t *rapid.T, env *sim.Env) {
		n := rapid.IntRange(0, 4).Draw(t, "n")
		parts := make([]string, n)
		for i := range parts {
			parts[i] = rapid.SampledFrom([]string{"set", "se", "sett", "get", "t", "s", "*", "", "new", "eset", "sete"}).Draw(t, "entry")
		}
		call := strings.Join(parts, ",")
		m := rapid.SampledFrom(methods).Draw(t, "method")
		if strings.Contains(m, ",") {
			m = "set"
		}
		// a comma is a valid character of a method name (IsValidRIDPart): such a
		// method equals no entry of any list, whatever the list looks like - the
		// whole list, a run of its entries, or a list of its own
		switch rapid.IntRange(0, 5).Draw(t, "commamethod") {
		case 0:
			m = call
		case 1:
			if n >= 2 {
				i := rapid.IntRange(0, n-2).Draw(t, "from")
				j := rapid.IntRange(i+2, n).Draw(t, "to")
				m = strings.Join(parts[i:j], ",")
			}
		case 2:
			m = rapid.SampledFrom([]string{"set,get", "set,", ",set", ",", "get,set"}).Draw(t, "cm")
		}
		a := &rescache.Access{AccessResult: &codec.AccessResult{Get: true, Call: call}}
		got := a.CanCall(m) == nil
		want := call == "*"
		if !want && call != "" {
			for _, e := range strings.Split(call, ",") {
				if e == m {
					want = true
				}
			}
		}
		if m == "" {
			// an empty method is never sent by a client (IsValidRIDPart); nothing asserted
			env.Record(call+"|"+m, false, map[string]int{"empty_method": 1})
			return
		}
		if got != want {
			fail(t, env, "C05", "cancall", call+"\x00"+m, fmt.Sprintf("call=%q CanCall(%q)=%v, split oracle says %v", call, m, got, want))
		}
		sub := false
		for _, e := range parts {
			if e != m && (strings.Contains(e, m) || strings.Contains(m, e)) && e != "" {
				sub = true
			}
		}
		env.Record(call+"|"+m, sub, map[string]int{"granted": b2i(want), "substring_entry": b2i(sub), "comma_method": b2i(strings.Contains(m, ","))})
	})
}

// ---------------------------------------------------------------------------
// C14: rid validity, method dispatch, path mapping

func refValidRID(rid string, allowQuery bool) bool {
	name := rid
	if i := strings.IndexByte(rid, '?'); i >= 0 {
		if !allowQuery {
			return false
		}
		name = rid[:i]
	}
	if name == "" {
		return false
	}
	for _, tok := range strings.Split(name, ".") {
		if !refValidPart(tok) {
			return false
		}
	}
	return true
}

func refValidPart(p string) bool {
	if p == "" {
		return false
	}
	for _, r := range p {
		if r < 33 || r > 126 || r == '.' || r == '*' || r == '>' || r == '?' {
			return false
		}
	}
	return true
}

type recReq struct {
	mu      sync.Mutex
	calls   []string
	recs    [][3]string // kind, rid, action: the text form is ambiguous when a rid or action contains '|'
	replies [][]byte
}

func (r *recReq) Reply(d []byte) { r.replies = append(r.replies, d) }
func (r *recReq) GetResource(rid string, cb func(*rpc.Resources, error)) {
	r.calls = append(r.calls, "get|"+rid)
	r.recs = append(r.recs, [3]string{"get", rid, ""})
}
func (r *recReq) SubscribeResource(rid string, cb func(*rpc.Resources, error)) {
	r.calls = append(r.calls, "subscribe|"+rid)
	r.recs = append(r.recs, [3]string{"subscribe", rid, ""})
}
func (r *recReq) UnsubscribeResource(rid string, count int, cb func(bool)) {
	r.calls = append(r.calls, fmt.Sprintf("unsubscribe|%s|%d", rid, count))
	r.recs = append(r.recs, [3]string{"unsubscribe", rid, ""})
}
func (r *recReq) CallResource(rid, action string, params interface{}, cb func(interface{}, error)) {
	r.calls = append(r.calls, "call|"+rid+"|"+action)
	r.recs = append(r.recs, [3]string{"call", rid, action})
}
func (r *recReq) AuthResource(rid, action string, params interface{}, cb func(interface{}, error)) {
	r.calls = append(r.calls, "auth|"+rid+"|"+action)
	r.recs = append(r.recs, [3]string{"auth", rid, action})
}
func (r *recReq) NewResource(rid string, params interface{}, cb func(interface{}, error)) {
	r.calls = append(r.calls, "new|"+rid)
	r.recs = append(r.recs, [3]string{"new", rid, ""})
}
func (r *recReq) SetVersion(p string) (string, error) { return "1.2.3", nil }
func (r *recReq) ProtocolVersion() int                { return 1002003 }

var hostileRunes = []rune("ab.*>? \t\r\n\x00\x7fé%/~!{}")

func init() {
	reg("C14-rid", "C14", func(t *rapid.T, env *sim.Env) {
		var rid string
		if rapid.Bool().Draw(t, "dotted") {
			rid = genDotted(t, "rid", 4)
			if rapid.IntRange(0, 3).Draw(t, "q") == 0 {
				rid += "?" + rapid.StringOfN(rapid.RuneFrom(hostileRunes), 0, 6, -1).Draw(t, "query")
			}
		} else {
			rid = rapid.StringOfN(rapid.RuneFrom(hostileRunes), 0, 10, -1).Draw(t, "rid")
		}
		aq := rapid.Bool().Draw(t, "allowQuery")
		if got, want := codec.IsValidRID(rid, aq), refValidRID(rid, aq); got != want {
			fail(t, env, "C14", "isvalidrid", rid, fmt.Sprintf("IsValidRID(%q,%v)=%v, reference %v", rid, aq, got, want))
		}
		if got, want := codec.IsValidRIDPart(rid), refValidPart(rid); got != want {
			fail(t, env, "C14", "isvalidridpart", rid, fmt.Sprintf("IsValidRIDPart(%q)=%v, reference %v", rid, got, want))
		}
		env.Record(rid, strings.ContainsAny(rid, "*>? \t\r\n\x00\x7fé"), map[string]int{"valid": b2i(refValidRID(rid, true))})
	})
	reg("C14-method", "C14", func(t *rapid.T, env *sim.Env) {
		action := rapid.SampledFrom([]string{"get", "subscribe", "unsubscribe", "call", "auth", "new", "version", "foo", "", "Get"}).Draw(t, "action")
		var rest string
		if rapid.Bool().Draw(t, "dotted") {
			rest = genDotted(t, "rest", 4)
			if rapid.IntRange(0, 3).Draw(t, "q") == 0 {
				rest += "?" + rapid.StringOfN(rapid.RuneFrom(hostileRunes), 0, 5, -1).Draw(t, "query")
			}
		} else {
			rest = rapid.StringOfN(rapid.RuneFrom(hostileRunes), 0, 8, -1).Draw(t, "rest")
		}
		method := action
		if rapid.IntRange(0, 9).Draw(t, "nodot") > 0 {
			method = action + "." + rest
		}
		mb, _ := json.Marshal(method)
		frame := fmt.Sprintf(`{"id":1,"method":%s}`, mb)
		// json.Marshal replaces invalid UTF-8; the method the gateway sees is the decoded one
		var seen string
		json.Unmarshal(mb, &seen)
		rec := &recReq{}
		rpc.HandleRequest([]byte(frame), rec)
		// reference dispatch
		want := ""
		i := strings.IndexByte(seen, '.')
		if i >= 0 {
			act, rid := seen[:i], seen[i+1:]
			m := ""
			ok := true
			if act == "call" || act == "auth" {
				j := strings.LastIndexByte(rid, '.')
				if j < 0 {
					ok = false
				} else {
					m = rid[j+1:]
					rid = rid[:j]
					ok = refValidPart(m)
				}
			}
			if ok && refValidRID(rid, true) {
				switch act {
				case "get", "subscribe", "new":
					want = act + "|" + rid
				case "unsubscribe":
					want = "unsubscribe|" + rid + "|1"
				case "call", "auth":
					want = act + "|" + rid + "|" + m
				}
			}
		}
		got := strings.Join(rec.calls, ";")
		if got != want {
			fail(t, env, "C14", "dispatch", seen, fmt.Sprintf("method %q dispatched as %q, reference %q", seen, got, want))
		}
		if want == "" && seen != "version" {
			if len(rec.replies) != 1 || !strings.Contains(string(rec.replies[0]), "system.invalidRequest") {
				fail(t, env, "C14", "rejection", seen, fmt.Sprintf("method %q: expected exactly one system.invalidRequest reply, got %q", seen, rec.replies))
			}
		}
		env.Record(seen, strings.ContainsAny(seen, "*>? \t\r\n\x00\x7fé") && i >= 0, map[string]int{"accepted": b2i(want != "")})
	})
	reg("C14-path", "C14", func(t *rapid.T, env *sim.Env) {
		prefix := rapid.SampledFrom([]string{"/api/", "/", "/v1/res/"}).Draw(t, "prefix")
		nseg := rapid.IntRange(0, 4).Draw(t, "nseg")
		segs := make([]string, nseg)
		for i := range segs {
			segs[i] = rapid.SampledFrom([]string{"a", "b", "%2E", "%2e", "a%2Eb", "%20", "%2A", "%3E", "%3F", "*", ">", "", "%", "%zz", "é", "%C3%A9", "a.b", ".", "%0A", "~", "%2F", "+"}).Draw(t, "seg")
		}
		path := prefix + strings.Join(segs, "/")
		query := rapid.SampledFrom([]string{"", "q=1", "a=%20", "x.y=*"}).Draw(t, "query")
		got := server.PathToRID(path, query, prefix)
		// reference: segment-wise percent decoding; any literal dot, bad escape or empty result rejects
		want := ""
		ok := nseg > 0 && !strings.Contains(strings.Join(segs, "/"), ".")
		dec := make([]string, nseg)
		for i, s := range segs {
			d, err := url.PathUnescape(s)
			if err != nil {
				ok = false
			}
			dec[i] = d
		}
		if ok {
			want = strings.Join(dec, ".")
			if query != "" {
				want += "?" + query
			}
		}
		if nseg > 0 && segs[0] == "" && ok {
			// a leading empty segment: "/api//a" -> PathToRID strips one leading slash
			want = strings.Join(dec[1:], ".")
			if nseg == 1 {
				want = ""
				ok = false
			} else if query != "" {
				want += "?" + query
			}
			if nseg == 1 {
				want = ""
			}
		}
		if got != want && !(nseg == 1 && segs[0] == "") {
			fail(t, env, "C14", "path_to_rid", path, fmt.Sprintf("PathToRID(%q,%q,%q)=%q, reference %q", path, query, prefix, got, want))
		}
		// hygiene: whatever PathToRID returns and IsValidRID accepts is a clean subject
		if codec.IsValidRID(got, true) {
			name := got
			if i := strings.IndexByte(got, '?'); i >= 0 {
				name = got[:i]
			}
			for _, tok := range strings.Split(name, ".") {
				if !refValidPart(tok) {
					fail(t, env, "C14", "path_hygiene", path, fmt.Sprintf("path %q maps to rid %q with unclean token %q", path, got, tok))
				}
			}
			// round trip
			if back := server.RIDToPath(name, prefix); server.PathToRID(back, "", prefix) != name {
				fail(t, env, "C14", "path_roundtrip", path, fmt.Sprintf("RIDToPath(%q)=%q does not map back (got %q)", name, back, server.PathToRID(back, "", prefix)))
			}
		}
		env.Record(path+"?"+query, strings.Contains(path, "%"), map[string]int{"accepted": b2i(codec.IsValidRID(got, true))})
	})
}

// ---------------------------------------------------------------------------
// C19: Throttle against a queue model

func init() {
	reg("C19-throttle", "C19", func(t *rapid.T, env *sim.Env) {
		limit := rapid.IntRange(1, 4).Draw(t, "limit")
		th := rescache.NewThrottle(limit)
		var mu sync.Mutex
		started := []int{}
		running := 0
		maxRunning := 0
		next := 0
		wg := sync.WaitGroup{}
		add := func() {
			id := next
			next++
			wg.Add(1)
			th.Add(func() {
				mu.Lock()
				started = append(started, id)
				running++
				if running > maxRunning {
					maxRunning = running
				}
				mu.Unlock()
				wg.Done()
			})
		}
		done := func() bool {
			mu.Lock()
			if running == 0 {
				mu.Unlock()
				return false
			}
			running--
			mu.Unlock()
			th.Done()
			return true
		}
		n := rapid.IntRange(1, 30).Draw(t, "nops")
		adds, dones := 0, 0
		for i := 0; i < n; i++ {
			if rapid.IntRange(0, 2).Draw(t, "op") > 0 {
				add()
				adds++
			} else if done() {
				dones++
				// Done hands the slot to the next starter on its own goroutine: wait for it
				waitStarted(&mu, &started, min(adds, dones+limit))
			}
			mu.Lock()
			r := running
			s := len(started)
			mu.Unlock()
			if r > limit {
				fail(t, env, "C19", "throttle_bound", fmt.Sprint(limit), fmt.Sprintf("limit %d but %d callbacks running", limit, r))
			}
			if want := min(adds, dones+limit); s != want {
				fail(t, env, "C19", "throttle_progress", fmt.Sprint(limit), fmt.Sprintf("limit %d: %d adds, %d dones: %d started, expected %d", limit, adds, dones, s, want))
			}
		}
		// drain
		for done() {
			dones++
			waitStarted(&mu, &started, min(adds, dones+limit))
		}
		mu.Lock()
		if len(started) != adds {
			mu.Unlock()
			fail(t, env, "C19", "throttle_stall", fmt.Sprint(limit), fmt.Sprintf("limit %d: %d callbacks added but only %d ever started", limit, adds, len(started)))
		}
		if !sort.IntsAreSorted(started) {
			mu.Unlock()
			fail(t, env, "C19", "throttle_fifo", fmt.Sprint(limit), fmt.Sprintf("callbacks started out of order: %v", started))
		}
		mu.Unlock()
		env.Record(fmt.Sprintf("%d/%d/%d", limit, adds, n), adds > limit, map[string]int{"queued": b2i(adds > limit)})
	})
}

func min(a, b int) int {
	if a < b {
		return a
	}
	return b
}
