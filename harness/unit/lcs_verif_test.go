//go:build verif

package unit

import (
	"encoding/json"
	"fmt"
	"testing"

	"github.com/resgateio/resgate/server/codec"
	"github.com/resgateio/resgate/server/rescache"
	"pgregory.net/rapid"
	"verif/harness/sim"
)

func mkVal(js string) codec.Value {
	var v codec.Value
	if err := json.Unmarshal([]byte(js), &v); err != nil {
		panic(err)
	}
	return v
}

var lcsAlphabet = []string{`1`, `2`, `"x"`, `{"rid":"t.a"}`, `{"rid":"t.b"}`, `{"rid":"t.a","soft":true}`, `{"data":{"a":1}}`, `null`}

// applyLCS applies the events to a copy of a, checking every index; returns the result or an error.
func applyLCS(a []codec.Value, evs []*rescache.ResourceEvent) ([]codec.Value, error) {
	cur := append([]codec.Value(nil), a...)
	for i, ev := range evs {
		switch ev.Event {
		case "remove":
			d, err := codec.DecodeRemoveEvent(ev.Payload)
			if err != nil {
				return nil, fmt.Errorf("event %d: %v", i, err)
			}
			if d.Idx < 0 || d.Idx >= len(cur) {
				return nil, fmt.Errorf("event %d: remove idx %d out of range [0,%d)", i, d.Idx, len(cur))
			}
			cur = append(cur[:d.Idx:d.Idx], cur[d.Idx+1:]...)
		case "add":
			d, err := codec.DecodeAddEvent(ev.Payload)
			if err != nil {
				return nil, fmt.Errorf("event %d: %v", i, err)
			}
			if d.Idx < 0 || d.Idx > len(cur) {
				return nil, fmt.Errorf("event %d: add idx %d out of range [0,%d]", i, d.Idx, len(cur))
			}
			n := make([]codec.Value, 0, len(cur)+1)
			n = append(n, cur[:d.Idx]...)
			n = append(n, d.Value)
			n = append(n, cur[d.Idx:]...)
			cur = n
		default:
			return nil, fmt.Errorf("event %d: unexpected event %q", i, ev.Event)
		}
	}
	return cur, nil
}

func checkLCS(a, b []codec.Value) string {
	evs := rescache.VerifLCS(a, b)
	same := len(a) == len(b)
	if same {
		for i := range a {
			if !a[i].Equal(b[i]) {
				same = false
			}
		}
	}
	if same && len(evs) != 0 {
		return fmt.Sprintf("unchanged content yields %d events", len(evs))
	}
	res, err := applyLCS(a, evs)
	if err != nil {
		return err.Error()
	}
	if len(res) != len(b) {
		return fmt.Sprintf("applying the events gives %d values, expected %d", len(res), len(b))
	}
	for i := range b {
		if !res[i].Equal(b[i]) {
			return fmt.Sprintf("applying the events gives a different value at %d", i)
		}
	}
	// removes must come before adds (statement: remove and add events)
	return ""
}

func valsJSON(v []codec.Value) string {
	b, _ := json.Marshal(v)
	return string(b)
}

func init() {
	vals := make([]codec.Value, len(lcsAlphabet))
	for i, s := range lcsAlphabet {
		vals[i] = mkVal(s)
	}
	reg("C12-lcs", "C12", func(t *rapid.T, env *sim.Env) {
		k := rapid.IntRange(1, len(vals)).Draw(t, "alphabet")
		gen := rapid.SliceOfN(rapid.IntRange(0, k-1), 0, 40)
		ai := gen.Draw(t, "a")
		var bi []int
		if rapid.Bool().Draw(t, "derived") {
			// b derived from a by a few edits: the interesting region for an LCS
			bi = append([]int(nil), ai...)
			for e := rapid.IntRange(0, 6).Draw(t, "edits"); e > 0; e-- {
				if len(bi) > 0 && rapid.Bool().Draw(t, "del") {
					i := rapid.IntRange(0, len(bi)-1).Draw(t, "i")
					bi = append(bi[:i:i], bi[i+1:]...)
				} else {
					i := rapid.IntRange(0, len(bi)).Draw(t, "i")
					bi = append(bi[:i:i], append([]int{rapid.IntRange(0, k-1).Draw(t, "v")}, bi[i:]...)...)
				}
			}
		} else {
			bi = gen.Draw(t, "b")
		}
		a := make([]codec.Value, len(ai))
		for i, x := range ai {
			a[i] = vals[x]
		}
		b := make([]codec.Value, len(bi))
		for i, x := range bi {
			b[i] = vals[x]
		}
		if msg := checkLCS(a, b); msg != "" {
			fail(t, env, "C12", "lcs", valsJSON(a)+"\x00"+valsJSON(b), fmt.Sprintf("diff %s -> %s: %s", valsJSON(a), valsJSON(b), msg))
		}
		rep := false
		seen := map[int]bool{}
		for _, x := range ai {
			if seen[x] {
				rep = true
			}
			seen[x] = true
		}
		env.Record(valsJSON(a)+"|"+valsJSON(b), rep && valsJSON(a) != valsJSON(b), map[string]int{"repeated_value": b2i(rep)})
	})
}

// TestExhaustiveLCS enumerates every pair of sequences up to length 5 over 3 values.
func TestExhaustiveLCS(t *testing.T) {
	if *flagProp != "C12-lcs-exhaustive" {
		t.Skip()
	}
	env := sim.NewEnv("C12", *flagOut, *flagShard, *flagTier)
	defer env.Write()
	vals := []codec.Value{mkVal(`1`), mkVal(`2`), mkVal(`{"rid":"t.a"}`)}
	var seqs [][]codec.Value
	var rec func(cur []codec.Value)
	rec = func(cur []codec.Value) {
		seqs = append(seqs, append([]codec.Value(nil), cur...))
		if len(cur) == 5 {
			return
		}
		for _, v := range vals {
			rec(append(cur, v))
		}
	}
	rec(nil)
	for _, a := range seqs {
		for _, b := range seqs {
			if msg := checkLCS(a, b); msg != "" {
				rf := map[string]interface{}{"property": "C12", "engine": "unit", "target": "C12-lcs", "class": "lcs", "message": msg, "input": valsJSON(a) + "\x00" + valsJSON(b)}
				bts, _ := json.MarshalIndent(rf, "", " ")
				writeFile(*flagOut+"/fail-0.json", bts)
				env.Stats.Violations++
				t.Fatalf("VIOLATION C12 class=lcs: diff %s -> %s: %s", valsJSON(a), valsJSON(b), msg)
			}
			env.Record(valsJSON(a)+"|"+valsJSON(b), len(a) > 0 && valsJSON(a) != valsJSON(b), map[string]int{"pair": 1})
		}
	}
	env.Stats.Exhaustive = true
	fmt.Printf("OK, passed %d tests (exhaustive)\n", env.Stats.Cases)
}
