package unit

import (
	"encoding/json"
	"fmt"
	"net/textproto"
	"strings"
	"testing"

	"github.com/resgateio/resgate/server/codec"
	"github.com/resgateio/resgate/server/rescache"
	"github.com/resgateio/resgate/server/rpc"
	"verif/harness/sim"
)

func httpCanonical(k string) string { return textproto.CanonicalMIMEHeaderKey(k) }

func checkPattern(t *testing.T, p, name string) {
	rp := rescache.ParseResourcePattern(p)
	if rp.IsValid() != sim.RefPatternValid(p) {
		t.Fatalf("ParseResourcePattern(%q).IsValid()=%v, reference %v", p, rp.IsValid(), sim.RefPatternValid(p))
	}
	if name == "" || strings.Contains(name, "..") || strings.HasPrefix(name, ".") || strings.HasSuffix(name, ".") {
		return
	}
	if got, want := rp.Match(name), sim.RefPatternMatch(p, name); got != want {
		t.Fatalf("pattern %q Match(%q)=%v, reference %v", p, name, got, want)
	}
}

func checkMethod(t *testing.T, method string) {
	mb, _ := json.Marshal(method)
	var seen string
	json.Unmarshal(mb, &seen)
	rec := &recReq{}
	rpc.HandleRequest([]byte(fmt.Sprintf(`{"id":1,"method":%s}`, mb)), rec)
	for _, parts := range rec.recs {
		if !refValidRID(parts[1], true) || !codec.IsValidRID(parts[1], true) {
			t.Fatalf("method %q dispatched with invalid rid %q", seen, parts[1])
		}
		if (parts[0] == "call" || parts[0] == "auth") && !refValidPart(parts[2]) {
			t.Fatalf("method %q dispatched with invalid action %q", seen, parts[2])
		}
	}
	if len(rec.calls)+len(rec.replies) != 1 {
		t.Fatalf("method %q: %d dispatches and %d replies", seen, len(rec.calls), len(rec.replies))
	}
}
