package unit

import (
	"encoding/json"
	"fmt"
	"os"
	"strings"
	"testing"

	"github.com/resgateio/resgate/server/codec"
	"github.com/resgateio/resgate/server/rescache"
)

// TestReplay re-checks a saved failing input of a unit target without rapid.
func TestReplay(t *testing.T) {
	if *flagReplay == "" {
		t.Skip()
	}
	b, err := os.ReadFile(*flagReplay)
	if err != nil {
		t.Fatal(err)
	}
	var rf struct {
		Property string `json:"property"`
		Class    string `json:"class"`
		Input    string `json:"input"`
	}
	if err := json.Unmarshal(b, &rf); err != nil {
		t.Fatal(err)
	}
	msg := replayInput(t, rf.Class, rf.Input)
	if msg != "" {
		fmt.Printf("REPLAY-VIOLATION property=%s\n  %s class=%s: %s\n", rf.Property, rf.Property, rf.Class, msg)
		t.Fail()
	}
	fmt.Printf("REPLAY-SUMMARY fails=%d reps=1\n", b2i(msg != ""))
}

func replayInput(t *testing.T, class, in string) string {
	parts := strings.SplitN(in, "\x00", 2)
	switch class {
	case "pattern_validity", "pattern_match":
		name := "a.b"
		if len(parts) == 2 {
			name = parts[1]
		}
		ok := t.Run("pattern", func(st *testing.T) { checkPattern(st, parts[0], name) })
		if !ok {
			return "pattern matcher disagrees with the reference for " + fmt.Sprintf("%q / %q", parts[0], name)
		}
	case "cancall":
		if len(parts) == 2 {
			a := &rescache.Access{AccessResult: &codec.AccessResult{Get: true, Call: parts[0]}}
			got := a.CanCall(parts[1]) == nil
			want := parts[0] == "*"
			if !want && parts[0] != "" {
				for _, e := range strings.Split(parts[0], ",") {
					if e == parts[1] {
						want = true
					}
				}
			}
			if got != want {
				return fmt.Sprintf("call=%q CanCall(%q)=%v, split oracle %v", parts[0], parts[1], got, want)
			}
		}
	case "isvalidrid", "isvalidridpart":
		for _, aq := range []bool{true, false} {
			if codec.IsValidRID(in, aq) != refValidRID(in, aq) {
				return fmt.Sprintf("IsValidRID(%q,%v) disagrees with the reference", in, aq)
			}
		}
		if codec.IsValidRIDPart(in) != refValidPart(in) {
			return fmt.Sprintf("IsValidRIDPart(%q) disagrees with the reference", in)
		}
	case "dispatch", "rejection":
		ok := t.Run("method", func(st *testing.T) { checkMethod(st, in) })
		if !ok {
			return fmt.Sprintf("method %q dispatched contrary to the reference", in)
		}
	case "decoder":
		return decodeAll([]byte(in))
	case "lcs":
		return replayLCS(parts)
	}
	return ""
}
