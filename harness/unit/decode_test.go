package unit

import (
	"encoding/json"
	"fmt"
	"strings"
	"testing"

	"github.com/resgateio/resgate/server/codec"
	"github.com/resgateio/resgate/server/rpc"
	"pgregory.net/rapid"
	"verif/harness/sim"
)

// decodeAll feeds the bytes to every decoder of the codec and to the request
// dispatcher. Any panic is a violation (C15); an error must come with a nil result.
func decodeAll(b []byte) string {
	var v codec.Value
	_ = json.Unmarshal(b, &v)
	if r, err := codec.DecodeGetResponse(b); err != nil && r != nil {
		return "DecodeGetResponse returned a result together with an error"
	} else if err == nil {
		for _, x := range r.Model {
			if !x.IsProper() {
				return "DecodeGetResponse accepted an improper model value"
			}
		}
		for _, x := range r.Collection {
			if !x.IsProper() {
				return "DecodeGetResponse accepted an improper collection value"
			}
		}
		if (r.Model == nil) == (r.Collection == nil) {
			return "DecodeGetResponse accepted a result that is not exactly one of model/collection"
		}
	}
	codec.DecodeEvent(b)
	codec.DecodeQueryEvent(b)
	if r, err := codec.DecodeEventQueryResponse(b); err == nil && r != nil {
		for _, x := range r.Model {
			if !x.IsProper() {
				return "DecodeEventQueryResponse accepted an improper model value"
			}
		}
		for _, x := range r.Collection {
			if !x.IsProper() {
				return "DecodeEventQueryResponse accepted an improper collection value"
			}
		}
	}
	codec.IsLegacyChangeEvent(b)
	codec.DecodeChangeEvent(b)
	codec.DecodeLegacyChangeEvent(b)
	if d, err := codec.DecodeAddEvent(b); err == nil && !d.Value.IsProper() {
		return "DecodeAddEvent accepted an improper value"
	}
	codec.DecodeRemoveEvent(b)
	if res, _, rerr := codec.DecodeAccessResponse(b); rerr == nil && res == nil {
		return "DecodeAccessResponse returned neither a result nor an error"
	}
	if _, m, _ := codec.DecodeAccessResponse(b); m != nil {
		m.IsDirectResponseStatus()
		m.IsValidStatus()
		for k := range m.Header {
			if k != canonical(k) {
				return fmt.Sprintf("DecodeAccessResponse left a non-canonical meta header key %q", k)
			}
		}
	}
	if _, rid, m, err := codec.DecodeCallResponse(b); err == nil {
		if rid != "" && !refValidRID(rid, true) {
			return fmt.Sprintf("DecodeCallResponse accepted the invalid resource id %q", rid)
		}
		if m != nil {
			m.IsDirectResponseStatus()
		}
	}
	codec.TryDecodeLegacyNewResult(b)
	codec.DecodeConnTokenEvent(b)
	codec.DecodeSystemReset(b)
	codec.DecodeSystemTokenReset(b)
	rec := &recReq{}
	rpc.HandleRequest(b, rec)
	if len(rec.replies) > 1 {
		return "HandleRequest replied more than once"
	}
	return ""
}

func canonical(k string) string {
	// textproto.CanonicalMIMEHeaderKey without importing it twice
	return httpCanonical(k)
}

var jsonAtoms = []string{`null`, `true`, `1`, `-1`, `1.5`, `1e99`, `"s"`, `""`, `{}`, `[]`, `[null]`, `{"rid":"t.a"}`, `{"rid":""}`, `{"rid":"t.a","soft":true}`, `{"rid":"t.*"}`, `{"rid":5}`,
	`{"action":"delete"}`, `{"action":"x"}`, `{"data":1}`, `{"data":{"a":1}}`, `{"data":null}`, `{"rid":"t.a","data":1}`, `{"rid":"t.a","action":"delete"}`, `{"action":"delete","data":1}`, `[1]`, `{"a":1}`, `9999999999999999999999`, `-0`, `"\u0000"`, `{"rid":"t.a?q"}`}

func genJSON(t *rapid.T, depth int) string {
	k := rapid.IntRange(0, 9).Draw(t, "jk")
	if depth <= 0 || k < 5 {
		return rapid.SampledFrom(jsonAtoms).Draw(t, "atom")
	}
	if k < 7 {
		n := rapid.IntRange(0, 3).Draw(t, "an")
		xs := make([]string, n)
		for i := range xs {
			xs[i] = genJSON(t, depth-1)
		}
		return "[" + strings.Join(xs, ",") + "]"
	}
	keys := []string{"result", "error", "model", "collection", "query", "events", "event", "data", "values", "idx", "value", "meta", "status", "header", "resource", "rid", "token", "tid", "subject", "resources", "access", "tids", "code", "message", "get", "call", "id", "method", "params", "count", "protocol", "Set-Cookie", "content-type"}
	n := rapid.IntRange(0, 4).Draw(t, "on")
	xs := make([]string, n)
	for i := range xs {
		kb, _ := json.Marshal(rapid.SampledFrom(keys).Draw(t, "key"))
		xs[i] = string(kb) + ":" + genJSON(t, depth-1)
	}
	return "{" + strings.Join(xs, ",") + "}"
}

func init() {
	reg("C15-decode", "C15", func(t *rapid.T, env *sim.Env) {
		var s string
		switch rapid.IntRange(0, 3).Draw(t, "mode") {
		case 0:
			s = string(rapid.SliceOfN(rapid.Byte(), 0, 40).Draw(t, "bytes"))
		case 1:
			s = genJSON(t, 4)
			// mutate: cut or splice
			if len(s) > 0 && rapid.Bool().Draw(t, "cut") {
				s = s[:rapid.IntRange(0, len(s)-1).Draw(t, "cutat")]
			}
		default:
			s = genJSON(t, 4)
		}
		if msg := decodeAll([]byte(s)); msg != "" {
			fail(t, env, "C15", "decoder", s, msg)
		}
		var js interface{}
		valid := json.Unmarshal([]byte(s), &js) == nil
		env.Record(s, valid && strings.ContainsAny(s, "{["), map[string]int{"valid_json": b2i(valid)})
	})
}

// Native fuzz targets (thorough tier).

func FuzzDecoders(f *testing.F) {
	for _, s := range jsonAtoms {
		f.Add([]byte(s))
	}
	for _, s := range []string{`{"result":{"model":{"a":1}}}`, `{"result":{"collection":[1,{"rid":"t.a"}]}}`, `{"result":{"events":[null]}}`, `{"result":{"events":[{"event":"change","data":{"values":{"a":1}}}]}}`,
		`{"error":{"code":"system.notFound","message":"x"}}`, `{"resource":{"rid":"t.a"}}`, `{"meta":{"status":302,"header":{"location":["/x"]}}}`, `{"meta":{"status":303}}`, `{"result":null,"meta":{"status":403}}`, `{"id":1,"method":"call.t.a.b","params":{"count":1}}`,
		`{"id":18446744073709551615,"method":"unsubscribe.t.a","params":{"count":-1}}`, `{"values":{"a":{"action":"delete"}}}`, `{"idx":-1,"value":[]}`, `{"token":null,"tid":5}`} {
		f.Add([]byte(s))
	}
	f.Fuzz(func(t *testing.T, b []byte) {
		if msg := decodeAll(b); msg != "" {
			t.Fatalf("%s: %q", msg, b)
		}
	})
}

func FuzzPattern(f *testing.F) {
	for _, s := range []string{"a.b", "a.*", "a.>", ">", "*", "a..b", "a.*.c", "*.b", "a.b>", "a.*b", ""} {
		f.Add(s, "a.b.c")
	}
	f.Fuzz(func(t *testing.T, p, name string) {
		checkPattern(t, p, name)
	})
}

func FuzzRID(f *testing.F) {
	for _, s := range []string{"subscribe.t.a", "call.t.a.b", "get.t.a?q=1", "call.t.a.b?c", "subscribe.t..a", "subscribe.t.*", "new.t.>", "auth.a.b c", "unsubscribe.t.\n", "call.0.|", "call.a|b.c"} {
		f.Add(s)
	}
	f.Fuzz(func(t *testing.T, method string) {
		checkMethod(t, method)
	})
}
