package unit

import (
	"os"
	"sync"
	"time"
)

func writeFile(p string, b []byte) { os.WriteFile(p, b, 0o644) }

// waitStarted waits (bounded) until n callbacks have started.
func waitStarted(mu *sync.Mutex, started *[]int, n int) {
	deadline := time.Now().Add(2 * time.Second)
	for {
		mu.Lock()
		l := len(*started)
		mu.Unlock()
		if l >= n || time.Now().After(deadline) {
			return
		}
		time.Sleep(20 * time.Microsecond)
	}
}
