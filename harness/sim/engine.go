package sim

import (
	"encoding/json"
	"fmt"
	"hash/fnv"
	"os"
	"path/filepath"
	"sort"
	"strings"
)

// ShardStats is what one test process reports to the driver.
type ShardStats struct {
	Property     string         `json:"property"`
	Shard        int            `json:"shard"`
	Cases        int            `json:"cases"`
	NonTrivial   int            `json:"nontrivial"`
	Hashes       []uint64       `json:"hashes"`
	Classes      map[string]int `json:"classes"`
	Samples      []string       `json:"samples"`
	Excluded     map[string]int `json:"excluded"`
	Known        map[string]int `json:"known_hits"`
	Inconclusive int            `json:"inconclusive"`
	InconclMsgs  []string       `json:"inconclusive_msgs,omitempty"`
	Violations   int            `json:"violations"`
	Hooks        bool           `json:"hooks"`
	Modes        map[string]int `json:"modes"`
	Steps        int            `json:"steps"`
	Exhaustive   bool           `json:"exhaustive,omitempty"`
}

// Env carries per-process state across rapid cases.
type Env struct {
	OutDir string
	Shard  int
	Tier   string
	Stats  ShardStats
	hashes map[uint64]bool
	Known  *KnownFindings
}

func NewEnv(prop, outDir string, shard int, tier string) *Env {
	e := &Env{OutDir: outDir, Shard: shard, Tier: tier, hashes: map[uint64]bool{}}
	e.Stats = ShardStats{Property: prop, Shard: shard, Classes: map[string]int{}, Excluded: map[string]int{}, Known: map[string]int{}, Hooks: HooksEnabled, Modes: map[string]int{}}
	e.Known = LoadKnownFindings()
	return e
}

func hashString(s string) uint64 {
	h := fnv.New64a()
	h.Write([]byte(s))
	return h.Sum64()
}

// Record records one executed case.
func (e *Env) Record(text string, nontrivial bool, classes map[string]int) {
	e.Stats.Cases++
	for k, v := range classes {
		if v > 0 {
			e.Stats.Classes[k]++
		}
	}
	if nontrivial {
		h := hashString(text)
		if !e.hashes[h] {
			e.hashes[h] = true
			e.Stats.NonTrivial++
			if len(e.Stats.Samples) < 5 {
				if len(text) > 1500 {
					text = text[:1500] + " …"
				}
				e.Stats.Samples = append(e.Stats.Samples, text)
			}
		}
	}
}

func (e *Env) Inconclusive(msg string) {
	e.Stats.Inconclusive++
	if len(e.Stats.InconclMsgs) < 5 {
		e.Stats.InconclMsgs = append(e.Stats.InconclMsgs, msg)
	}
}

// Write writes the stats file.
func (e *Env) Write() {
	if e.OutDir == "" {
		return
	}
	os.MkdirAll(e.OutDir, 0o755)
	e.Stats.Hashes = e.Stats.Hashes[:0]
	for h := range e.hashes {
		e.Stats.Hashes = append(e.Stats.Hashes, h)
	}
	sort.Slice(e.Stats.Hashes, func(i, j int) bool { return e.Stats.Hashes[i] < e.Stats.Hashes[j] })
	b, _ := json.MarshalIndent(e.Stats, "", " ")
	os.WriteFile(filepath.Join(e.OutDir, fmt.Sprintf("stats-%d.json", e.Shard)), b, 0o644)
}

// WriteFail writes a replay file for a failing case.
func (e *Env) WriteFail(rf *ReplayFile) string {
	if e.OutDir == "" {
		return ""
	}
	os.MkdirAll(e.OutDir, 0o755)
	rf.Text = ScriptString(rf.Script)
	b, _ := json.MarshalIndent(rf, "", " ")
	p := filepath.Join(e.OutDir, fmt.Sprintf("fail-%d.json", e.Shard))
	os.WriteFile(p, b, 0o644)
	return p
}

// ---------------------------------------------------------------------------
// Known findings (DESIGN.md section 7). The file is read-only at run time.

type KnownFinding struct {
	Property   string `json:"property"`
	ID         string `json:"id"`
	Status     string `json:"status"` // "known" | "fixed"
	Commit     string `json:"commit,omitempty"`
	Trigger    string `json:"trigger"`    // name of the history predicate
	What       string `json:"what"`       // what fails
	Regression string `json:"regression"` // findings/<file>.json
}

type KnownFindings struct {
	Findings []KnownFinding `json:"findings"`
}

func LoadKnownFindings() *KnownFindings {
	kf := &KnownFindings{}
	for _, p := range []string{os.Getenv("VERIF_KNOWN"), "../../known_findings.json", "/verif/known_findings.json"} {
		if p == "" {
			continue
		}
		b, err := os.ReadFile(p)
		if err != nil {
			continue
		}
		if json.Unmarshal(b, kf) == nil {
			return kf
		}
	}
	return kf
}

// KnownTrigger reports whether a trigger is listed as a known (unfixed) finding for the property.
func (k *KnownFindings) KnownTrigger(prop, trigger string) bool {
	if k == nil {
		return false
	}
	for _, f := range k.Findings {
		if f.Status == "known" && f.Trigger == trigger && (f.Property == prop || strings.Contains(f.Property, prop)) {
			return true
		}
	}
	return false
}
