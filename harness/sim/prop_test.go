package sim

import (
	"encoding/json"
	"flag"
	"fmt"
	"os"
	"testing"

	"pgregory.net/rapid"
)

var (
	flagProp   = flag.String("verif.prop", "", "property id")
	flagOut    = flag.String("verif.out", "", "output directory for stats and fail files")
	flagShard  = flag.Int("verif.shard", 0, "shard number")
	flagTier   = flag.String("verif.tier", "quick", "tier")
	flagReplay = flag.String("verif.replay", "", "replay file")
	flagReps   = flag.Int("verif.reps", 1, "replay repetitions")
	flagTrace  = flag.Bool("verif.trace", false, "print the boundary log of a replay")
	flagProf   = flag.String("verif.profile", "", "development: generate from this profile only")
)

// TestProp is the search entry point: one property per process.
func TestProp(t *testing.T) {
	prop := Props[*flagProp]
	if prop == nil {
		t.Skipf("unknown property %q", *flagProp)
	}
	env := NewEnv(prop.ID, *flagOut, *flagShard, *flagTier)
	defer env.Write()
	if *flagProf != "" {
		cp := *prop
		cp.Profiles = nil
		for _, p := range prop.Profiles {
			if p.Name == *flagProf {
				cp.Profiles = append(cp.Profiles, p)
			}
		}
		if len(cp.Profiles) == 0 {
			t.Fatalf("no profile %q", *flagProf)
		}
		prop = &cp
	}
	rapid.Check(t, func(rt *rapid.T) {
		switch prop.ID {
		case "C11":
			RunFaultCase(rt, env, prop, C11Faults, nil)
		case "C20":
			RunFaultCase(rt, env, prop, C20Faults, c20Post())
		default:
			RunCase(rt, env, prop)
		}
	})
}

// TestReplay replays a script through the interpreter without rapid.
func TestReplay(t *testing.T) {
	if *flagReplay == "" {
		t.Skip("no replay file")
	}
	b, err := os.ReadFile(*flagReplay)
	if err != nil {
		t.Fatal(err)
	}
	var rf ReplayFile
	if err := json.Unmarshal(b, &rf); err != nil {
		t.Fatal(err)
	}
	id := rf.Property
	if *flagProp != "" {
		id = *flagProp
	}
	prop := Props[id]
	if prop == nil {
		t.Fatalf("unknown property %q", id)
	}
	known := LoadKnownFindings()
	fails := 0
	for i := 0; i < *flagReps; i++ {
		ReplayTrace = *flagTrace
		res, err := Replay(prop, &rf, known)
		if err != nil {
			t.Fatal(err)
		}
		if res.Inconcl != "" {
			fmt.Printf("REPLAY-INCONCLUSIVE %s\n", res.Inconcl)
		}
		if len(res.Violations) > 0 {
			fails++
			if fails == 1 {
				fmt.Printf("REPLAY-VIOLATION property=%s\n%s", res.Violations[0].Property, fmtViolations(res.Violations))
			}
		}
		for i, v := range res.Known {
			if i == 0 {
				fmt.Printf("REPLAY-KNOWN property=%s trigger=%s: %s\n", v.Property, res.KnownTrig[i], v.Message)
			}
		}
	}
	fmt.Printf("REPLAY-SUMMARY fails=%d reps=%d\n", fails, *flagReps)
	if fails > 0 {
		t.Fail()
	}
}

// TestShrink minimises a failing replay file by delta debugging on the script
// (every subsequence of a script is a script).
func TestShrink(t *testing.T) {
	if *flagReplay == "" {
		t.Skip("no replay file")
	}
	b, err := os.ReadFile(*flagReplay)
	if err != nil {
		t.Fatal(err)
	}
	var rf ReplayFile
	if err := json.Unmarshal(b, &rf); err != nil {
		t.Fatal(err)
	}
	prop := Props[rf.Property]
	if *flagProp != "" {
		prop = Props[*flagProp]
	}
	if prop == nil {
		t.Fatalf("unknown property")
	}
	known := LoadKnownFindings()
	reps := *flagReps
	runs := 0
	fails := func(script []Op) (bool, Violation) {
		for i := 0; i < reps; i++ {
			runs++
			r := rf
			r.Script = script
			res, err := Replay(prop, &r, known)
			if err != nil {
				return false, Violation{}
			}
			for _, v := range res.Violations {
				if v.Class == rf.Class || rf.Class == "" {
					return true, v
				}
			}
		}
		return false, Violation{}
	}
	ok, v := fails(rf.Script)
	if !ok {
		fmt.Printf("SHRINK-NOREPRO runs=%d\n", runs)
		t.Fail()
		return
	}
	cur := append([]Op(nil), rf.Script...)
	last := v
	// chunked removal, then single removal until fixpoint
	for chunk := len(cur) / 2; chunk >= 1; {
		removed := false
		for i := 0; i+chunk <= len(cur); {
			cand := append(append([]Op(nil), cur[:i]...), cur[i+chunk:]...)
			if ok, v := fails(cand); ok {
				cur = cand
				last = v
				removed = true
			} else {
				i += chunk
			}
			if runs > 4000 {
				break
			}
		}
		if runs > 4000 {
			break
		}
		if chunk == 1 && !removed {
			break
		}
		if chunk > 1 {
			chunk /= 2
		}
	}
	rf.Script = cur
	rf.Message = last.Message
	rf.Class = last.Class
	rf.Text = ScriptString(cur)
	out, _ := json.MarshalIndent(rf, "", " ")
	dst := *flagOut
	if dst == "" {
		dst = *flagReplay + ".min.json"
	}
	os.WriteFile(dst, out, 0o644)
	fmt.Printf("SHRINK-OK ops=%d runs=%d file=%s\n  %s\n  %s\n", len(cur), runs, dst, last.Message, rf.Text)
}
