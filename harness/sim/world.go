package sim

import (
	"bufio"
	"encoding/json"
	"fmt"
	"net"
	"net/http"
	"net/http/httptest"
	"os"
	"regexp"
	"sort"
	"strconv"
	"strings"
	"sync"
	"time"

	"github.com/gorilla/websocket"
	"github.com/resgateio/resgate/logger"
	"github.com/resgateio/resgate/server"
	"github.com/resgateio/resgate/server/mq"
)

// WorldConfig is the configuration of one simulated world (part of the replay file).
type WorldConfig struct {
	Resources         []ResDef `json:"resources"`
	ResetThrottle     int      `json:"resetThrottle,omitempty"`
	ReferenceThrottle int      `json:"referenceThrottle,omitempty"`
	APIPath           string   `json:"apiPath,omitempty"`
	APIEncoding       string   `json:"apiEncoding,omitempty"`
	HeaderAuth        string   `json:"headerAuth,omitempty"`
	WSHeaderAuth      string   `json:"wsHeaderAuth,omitempty"`
	AllowOrigin       string   `json:"allowOrigin,omitempty"`
	PUTMethod         string   `json:"putMethod,omitempty"`
	DELETEMethod      string   `json:"deleteMethod,omitempty"`
	PATCHMethod       string   `json:"patchMethod,omitempty"`
	Metrics           bool     `json:"metrics,omitempty"`
	UnsubDelayMs      int      `json:"unsubDelayMs,omitempty"`     // 0 = no delay (NoUnsubscribeDelay)
	PreciseRetention  bool     `json:"preciseRetention,omitempty"` // judge the known retention findings by their exact conditions (acyclic, event-free histories)
	Procs             int      `json:"procs,omitempty"`
	// Listen: the gateway also listens on real loopback ports (API, and metrics
	// when ListenMetrics); the harness clients keep using the in-memory pipes
	Listen        bool `json:"listen,omitempty"`
	ListenMetrics bool `json:"listenMetrics,omitempty"`
	// Protocol: clients follow the protocol; an unsubscribe for more than the
	// confirmed direct subscriptions is a no-op (keeps shrunk scripts in the domain).
	Protocol bool `json:"protocol,omitempty"`
}

// LogEntry is one entry of the global, logically-clocked boundary/frame log.
type LogEntry struct {
	T       int
	Step    int
	Kind    string
	Conn    int // client index for frame entries; -1 otherwise
	Subject string
	Payload []byte
	CID     string
	Query   string
	Req     int
	Err     string
	Code    int         // http status
	Header  http.Header // http response headers
	HTTP    int         // http call id
}

type Stats struct {
	Dumps int
	Steps int
}

// Client is one WebSocket client connection.
type Client struct {
	w          *World
	Idx        int
	ws         *websocket.Conn
	wmu        sync.Mutex
	CID        string
	Ref        *RefClient
	Closed     bool // closed by the client side
	EOF        bool // reader saw the end
	Dialed     bool
	DialErr    string
	DialStatus int
	DialHeader http.Header
	NextID     uint64
	pipe       net.Conn
	Headers    map[string]string
	stallMu    sync.Mutex
	stall      chan struct{} // non-nil: the client has stopped reading its socket
}

// stallCh returns the channel the reader waits on while the client does not read.
func (c *Client) stallCh() chan struct{} {
	c.stallMu.Lock()
	defer c.stallMu.Unlock()
	return c.stall
}

// setStall makes the client stop (or go on) reading its socket.
func (c *Client) setStall(on bool) {
	c.stallMu.Lock()
	defer c.stallMu.Unlock()
	if on && c.stall == nil {
		c.stall = make(chan struct{})
	} else if !on && c.stall != nil {
		close(c.stall)
		c.stall = nil
	}
}

// waitStall parks a client's reader while the client does not read (a named
// function so that the quiescence detector knows the wait).
//
//go:noinline
func waitStall(ch chan struct{}) { <-ch }

// anyStalled reports whether some client is not reading its socket (the gateway
// may then sit in a write to it, which is no sign of a stall of the gateway).
func (w *World) anyStalled() bool {
	for _, c := range w.Clients {
		if c.stallCh() != nil {
			return true
		}
	}
	return false
}

// noteStalled records which clients are not reading when a fault strikes.
func (w *World) noteStalled() {
	w.StalledAtStop = map[int]bool{}
	for _, c := range w.Clients {
		if c.stallCh() != nil {
			w.StalledAtStop[c.Idx] = true
		}
	}
}

// resumeAll lets every client read again.
func (w *World) resumeAll() {
	for _, c := range w.Clients {
		c.setStall(false)
	}
}

// HTTPCall is one HTTP request issued through Service.ServeHTTP.
type HTTPCall struct {
	ID         int
	Method     string
	URL        string
	Header     map[string]string
	Body       string
	CID        string
	Done       bool
	Code       int
	RespHeader http.Header
	RespBody   []byte
	Rejected   bool // the HTTP layer itself rejected the request line
	StartT     int
	DoneT      int
}

// World owns the gateway under test and both of its boundaries.
type World struct {
	Cfg  WorldConfig
	mq   *MockMQ
	svc  *server.Service
	Svc  *Service // reference service
	logr *nullLogger

	logMu sync.Mutex
	log   []LogEntry
	step  int

	Clients []*Client
	HTTP    []*HTTPCall
	httpMu  sync.Mutex

	cidOwner  map[string]int // cid -> actor (client idx, or 1000+http id)
	absorbed  int
	newActor  int // actor that receives the next unknown conn.<cid> subscription
	Script    []Op
	SymScript []Op // Script with connection ids in symbolic form (what replay files hold)
	probeWS   *websocket.Conn
	probePipe net.Conn
	Race      bool
	stats     Stats
	Failed    string // harness-level failure (inconclusive)
	Deadlock  string
	Stalled   bool
	stopped   bool
	StopErrs  []string
	stopCh    <-chan error
	StopSeen  []string
	// HeldWorkers: callers that were held inside SendRequest by a held race group
	HeldWorkers int
	// StalledAtStop: clients that were not reading when the last fault struck
	StalledAtStop map[int]bool
	Port          int               // real API port (Listen)
	MetricsPort   int               // real metrics port (ListenMetrics)
	qevSubjects   map[string]string // query event subject -> resource name
	Monitors      []Monitor
	tokens        map[int][]string // actor -> token history (JSON text), "" = none
	closedAt      map[int]int
	started       bool
	Journal       *os.File // per-op journal for crash attribution
}

type nullLogger struct {
	mu   sync.Mutex
	errs []string
}

func (l *nullLogger) Log(s string)   {}
func (l *nullLogger) Debug(s string) {}
func (l *nullLogger) Trace(s string) {}
func (l *nullLogger) Error(s string) {
	l.mu.Lock()
	if len(l.errs) < 1000 {
		l.errs = append(l.errs, s)
	}
	l.mu.Unlock()
}
func (l *nullLogger) IsDebug() bool { return false }
func (l *nullLogger) IsTrace() bool { return false }

var _ logger.Logger = (*nullLogger)(nil)

func strp(s string) *string {
	if s == "" {
		return nil
	}
	return &s
}

// NewWorld creates and starts a gateway with the given configuration.
func NewWorld(cfg WorldConfig) (*World, error) {
	w := &World{Cfg: cfg, cidOwner: map[string]int{}, newActor: -1, qevSubjects: map[string]string{},
		tokens: map[int][]string{}, closedAt: map[int]int{}}
	w.mq = newMockMQ(w)
	w.step = -1 // start-up entries belong to no script step
	w.Svc = newService(cfg.Resources)
	w.logr = &nullLogger{}
	var sc server.Config
	sc.SetDefault()
	sc.NoHTTP = true
	if cfg.Listen {
		// (the ports were free a moment ago; a lost race for one shows as a failed
		// Start and makes the case inconclusive)
		sc.NoHTTP = false
		lo := "127.0.0.1"
		sc.Addr = &lo
		w.Port = freePort()
		sc.Port = uint16(w.Port)
		if cfg.ListenMetrics {
			w.MetricsPort = freePort()
			for i := 0; i < 5 && w.MetricsPort == w.Port; i++ {
				w.MetricsPort = freePort()
			}
			sc.MetricsPort = uint16(w.MetricsPort)
		}
	}
	sc.NoUnsubscribeDelay = cfg.UnsubDelayMs == 0
	sc.ResetThrottle = cfg.ResetThrottle
	sc.ReferenceThrottle = cfg.ReferenceThrottle
	if cfg.APIPath != "" {
		sc.APIPath = cfg.APIPath
	}
	if cfg.APIEncoding != "" {
		sc.APIEncoding = cfg.APIEncoding
	}
	sc.HeaderAuth = strp(cfg.HeaderAuth)
	sc.WSHeaderAuth = strp(cfg.WSHeaderAuth)
	sc.AllowOrigin = strp(cfg.AllowOrigin)
	sc.PUTMethod = strp(cfg.PUTMethod)
	sc.DELETEMethod = strp(cfg.DELETEMethod)
	sc.PATCHMethod = strp(cfg.PATCHMethod)
	sc.WSPath = "/ws"
	if cfg.Metrics && !cfg.Listen {
		sc.MetricsPort = 9090
	}
	svc, err := server.NewService(w.mq, sc)
	if err != nil {
		return nil, err
	}
	svc.SetLogger(w.logr)
	w.svc = svc
	if cfg.UnsubDelayMs > 0 {
		setUnsubDelay(svc, time.Duration(cfg.UnsubDelayMs)*time.Millisecond)
	}
	if err := svc.Start(); err != nil {
		return nil, err
	}
	w.started = true
	w.stopCh = svc.StopChannel()
	if cfg.Listen {
		// the listeners are bound on goroutines; a port that was handed to another
		// process since it was picked makes the case void
		up := false
		for i := 0; i < 200 && !up; i++ {
			up = OwnListener(w.Port) && (w.MetricsPort == 0 || OwnListener(w.MetricsPort))
			if !up {
				time.Sleep(5 * time.Millisecond)
			}
		}
		if !up {
			go svc.Stop(nil)
			return nil, fmt.Errorf("the gateway did not come to listen on port %d / %d (taken by another process?)", w.Port, w.MetricsPort)
		}
	}
	return w, nil
}

// logMQ appends an entry (called with MockMQ.mu held or not; takes logMu).
func (w *World) logMQ(e LogEntry) int {
	w.logMu.Lock()
	e.T = len(w.log)
	e.Step = w.step
	if e.Kind != "frame" && e.Kind != "cframe" && e.Kind != "eof" && e.Kind != "cclose" && e.Kind != "dial" {
		e.Conn = -1
	}
	w.log = append(w.log, e)
	t := e.T
	w.logMu.Unlock()
	return t
}

// Log returns the log (only call while quiescent).
func (w *World) Log() []LogEntry {
	w.logMu.Lock()
	defer w.logMu.Unlock()
	return w.log
}

func (w *World) now() int {
	w.logMu.Lock()
	defer w.logMu.Unlock()
	return len(w.log)
}

// ActorOf resolves a cid to an actor index (-1 unknown).
func (w *World) ActorOf(cid string) int {
	if cid == "" {
		return -1
	}
	if a, ok := w.cidOwner[cid]; ok {
		return a
	}
	return -1
}

// CIDs returns all cids seen so far.
func (w *World) CIDs() []string {
	r := make([]string, 0, len(w.cidOwner))
	for c := range w.cidOwner {
		r = append(r, c)
	}
	// by actor, so that the order is the same in every run of a script
	sort.Slice(r, func(i, j int) bool { return w.cidOwner[r[i]] < w.cidOwner[r[j]] })
	return r
}

// Connection ids are chosen by the gateway and differ from run to run. Scripts
// therefore name them symbolically, "{cid:N}" for the cid of actor N, in every
// string field of an op; Exec expands them to the ids of the current run.

var symCIDRe = regexp.MustCompile(`\{cid:(\d+)\}`)

func (w *World) mapOpStrings(op Op, f func(string) string) Op {
	op.S, op.Q, op.M, op.P = f(op.S), f(op.Q), f(op.M), f(op.P)
	if op.Val != nil {
		v := *op.Val
		v.R = f(v.R)
		op.Val = &v
	}
	if len(op.Par) > 0 {
		par := make([]Op, len(op.Par))
		for i, p := range op.Par {
			par[i] = w.mapOpStrings(p, f)
		}
		op.Par = par
	}
	return op
}

// expandOp replaces the symbolic cids of known actors by their current ids.
func (w *World) expandOp(op Op) Op {
	return w.mapOpStrings(op, func(s string) string {
		if !strings.Contains(s, "{cid:") {
			return s
		}
		return symCIDRe.ReplaceAllStringFunc(s, func(m string) string {
			n, _ := strconv.Atoi(m[5 : len(m)-1])
			for cid, a := range w.cidOwner {
				if a == n {
					return cid
				}
			}
			return m
		})
	})
}

// symbolicOp replaces the current connection ids by their symbolic form.
func (w *World) symbolicOp(op Op) Op {
	if len(w.cidOwner) == 0 {
		return op
	}
	return w.mapOpStrings(op, func(s string) string {
		if len(s) < 20 {
			return s
		}
		for cid, a := range w.cidOwner {
			if strings.Contains(s, cid) {
				s = strings.Replace(s, cid, "{cid:"+strconv.Itoa(a)+"}", -1)
			}
		}
		return s
	})
}

// absorb feeds new log entries to reference clients and monitors. Only called
// from the driving goroutine while the world is quiescent.
func (w *World) absorb() {
	w.logMu.Lock()
	entries := w.log[w.absorbed:]
	w.absorbed = len(w.log)
	w.logMu.Unlock()
	for i := range entries {
		e := &entries[i]
		switch e.Kind {
		case "mq_sub":
			if strings.HasPrefix(e.Subject, "conn.") {
				cid := e.Subject[5:]
				if _, ok := w.cidOwner[cid]; !ok {
					w.cidOwner[cid] = w.newActor
					if w.newActor >= 0 && w.newActor < 1000 && w.newActor < len(w.Clients) {
						w.Clients[w.newActor].CID = cid
					} else if w.newActor >= 1000 {
						if h := w.httpByID(w.newActor - 1000); h != nil {
							h.CID = cid
						}
					}
					w.newActor = -1
				}
			}
		case "frame":
			c := w.Clients[e.Conn]
			c.Ref.Frame(e.Payload, e.T)
			if r := c.Ref.LastResp; r != nil && r.ResRootErr && r.Resp == 1 {
				// A resource response whose root is an error entry: after an access
				// denial the client is left without a direct subscription (C04), after
				// a load error the subscription stands (C08). Decide from the access
				// answer this connection last received for the resource.
				switch w.lastAccessVerdict(c, r.ResRID, e.T) {
				case 0:
					c.Ref.Direct[r.ResRID]--
					c.Ref.DirectLog = append(c.Ref.DirectLog, DirectRec{T: e.T, RID: r.ResRID, Kind: "res-denied", Count: 1, After: c.Ref.Direct[r.ResRID]})
					r.ResDenied = true
					// the error placeholder is not retained either
					c.Ref.gc(e.T)
				case 1:
				default:
					c.Ref.AmbigDirect[r.ResRID] = true
				}
			}
		case "eof":
			w.Clients[e.Conn].Ref.Closed = true
		}
		for _, m := range w.Monitors {
			m.OnLog(w, e)
		}
	}
}

func (w *World) httpByID(id int) *HTTPCall {
	w.httpMu.Lock()
	defer w.httpMu.Unlock()
	for _, h := range w.HTTP {
		if h.ID == id {
			return h
		}
	}
	return nil
}

const settleLimit = 20 * time.Second

// Settle waits for quiescence and absorbs the log.
func (w *World) Settle() bool {
	if w.Failed != "" || w.Deadlock != "" {
		return false
	}
	stalledClients = w.anyStalled()
	r := w.settleWait(settleLimit)
	if !r.ok {
		if r.deadlock {
			w.Deadlock = r.desc
		} else {
			w.Failed = "settle timeout: " + r.desc
		}
		w.absorb()
		return false
	}
	w.absorb()
	return true
}

// Exec executes one op, waits for quiescence (deterministic mode), and records it.
func (w *World) Exec(op Op) {
	if w.Failed != "" || w.Deadlock != "" {
		return
	}
	w.step = len(w.Script)
	op = w.expandOp(op)
	sop := w.symbolicOp(op)
	w.Script = append(w.Script, op)
	w.SymScript = append(w.SymScript, sop)
	w.stats.Steps++
	if w.Journal != nil {
		b, _ := json.Marshal(sop)
		w.Journal.Write(append(b, '\n'))
	}
	if op.K == "par" && op.O == "held" {
		w.execHeld(op)
	} else if op.K == "par" {
		var wg sync.WaitGroup
		start := make(chan struct{})
		// service-side ops are executed in script order from one goroutine, client ops from their own
		var svcOps []Op
		for _, p := range op.Par {
			p := p
			switch p.K {
			case "creq", "craw", "close", "stop", "lose":
				wg.Add(1)
				go func() {
					defer wg.Done()
					<-start
					w.execOne(p)
				}()
			default:
				svcOps = append(svcOps, p)
			}
		}
		wg.Add(1)
		go func() {
			defer wg.Done()
			<-start
			for _, p := range svcOps {
				w.execOne(p)
			}
		}()
		close(start)
		wg.Wait()
	} else {
		w.execOne(op)
	}
	w.Settle()
	for _, m := range w.Monitors {
		m.OnStepEnd(w, w.step)
	}
}

// execHeld runs a race group with the worker of a connection held: the
// messaging client stops returning from SendRequest, the client request of the
// group makes the connection's worker send a request (and stay in it), the
// fault (close, stop, lose) strikes and the connection's disposal is queued
// behind the held work, the service-side ops of the group (answers) are
// delivered, and only then the worker is let go. The answer's hand-over to the
// connection so lands between the queued disposal and its execution.
func (w *World) execHeld(op Op) {
	var creq, fault *Op
	var rest []Op
	for i := range op.Par {
		p := &op.Par[i]
		switch {
		case p.K == "creq" && creq == nil:
			creq = p
		case (p.K == "close" || p.K == "stop" || p.K == "lose") && fault == nil:
			fault = p
		default:
			rest = append(rest, *p)
		}
	}
	w.mq.Hold()
	defer w.mq.Release()
	if creq != nil {
		if c := w.client(creq.C); c != nil && c.Dialed && !c.Closed && !c.EOF {
			w.execOne(*creq)
			for i := 0; i < 200 && w.mq.Held() == 0; i++ {
				time.Sleep(5 * time.Millisecond)
			}
		}
	}
	w.HeldWorkers += w.mq.Held()
	// (the worker is let go after a second at the latest, also when this
	// goroutine is starved: the gateway's shutdown waits are wall-clock bounds)
	t0 := time.Now()
	guard := time.AfterFunc(time.Second, w.mq.Release)
	defer guard.Stop()
	done := make(chan struct{})
	go func() {
		defer close(done)
		if fault != nil {
			w.execOne(*fault)
		}
	}()
	// the socket is closed, the read loop returns and queues the disposal
	time.Sleep(40 * time.Millisecond)
	for _, p := range rest {
		w.execOne(p)
	}
	// the answer's callback reaches the connection's queue
	time.Sleep(15 * time.Millisecond)
	w.mq.Release()
	if d := time.Since(t0); d > time.Second && w.Failed == "" {
		w.Failed = "worker-held group overran its time: " + d.String()
	}
	<-done
}

func (w *World) client(i int) *Client {
	if i == -1 && len(w.Clients) > 0 {
		return w.Clients[len(w.Clients)-1] // "the connection made last"
	}
	if i < 0 || i >= len(w.Clients) {
		return nil
	}
	return w.Clients[i]
}

func (w *World) execOne(op Op) {
	switch op.K {
	case "connect":
		w.doConnect(op)
	case "creq":
		if op.N > 1 {
			// the same request N times, with consecutive ids, back to back
			for i := 0; i < op.N; i++ {
				one := op
				one.N, one.ID = 0, op.ID+uint64(i)
				w.execOne(one)
			}
			return
		}
		c := w.client(op.C)
		if c == nil || !c.Dialed || c.Closed || c.EOF {
			return
		}
		if op.ID >= c.NextID {
			c.NextID = op.ID + 1
		}
		if w.Cfg.Protocol && strings.HasPrefix(op.M, "unsubscribe.") {
			tmp := newRefClient(-1)
			tmp.NoteRequest(0, op.M, op.P, 0, 0)
			q := tmp.Reqs[0]
			if q.BadCnt || c.Ref.Direct[q.RID] < q.Count {
				return
			}
		}
		var frame string
		if op.P != "" {
			frame = fmt.Sprintf(`{"id":%d,"method":%s,"params":%s}`, op.ID, jstr(op.M), op.P)
		} else {
			frame = fmt.Sprintf(`{"id":%d,"method":%s}`, op.ID, jstr(op.M))
		}
		w.logMu.Lock()
		t := len(w.log)
		w.log = append(w.log, LogEntry{T: t, Step: w.step, Kind: "cframe", Conn: c.Idx, Payload: []byte(frame)})
		c.Ref.NoteRequest(op.ID, op.M, op.P, t, w.step)
		w.logMu.Unlock()
		c.write([]byte(frame))
	case "craw":
		c := w.client(op.C)
		if c == nil || !c.Dialed || c.Closed || c.EOF {
			return
		}
		t := w.logMQ(LogEntry{Kind: "cframe", Conn: c.Idx, Payload: []byte(op.P)})
		// a frame that is a JSON object with an unsigned integer id and a string
		// method is a request in the sense of C07 and must be answered
		var f struct {
			ID     json.RawMessage `json:"id"`
			Method json.RawMessage `json:"method"`
			Params json.RawMessage `json:"params"`
		}
		if json.Unmarshal([]byte(op.P), &f) == nil && len(f.ID) > 0 {
			if id, err := strconv.ParseUint(string(f.ID), 10, 63); err == nil {
				method, isStr := "", true
				if len(f.Method) > 0 && string(f.Method) != "null" {
					isStr = json.Unmarshal(f.Method, &method) == nil
				}
				c.Ref.NoteRequest(id, method, string(f.Params), t, w.step)
				// a non-string method is outside the statement's precondition: a response is allowed, not required
				c.Ref.Reqs[id].Optional = !isStr
				if id >= c.NextID {
					c.NextID = id + 1
				}
			}
		}
		c.write([]byte(op.P))
	case "close":
		c := w.client(op.C)
		if c == nil || !c.Dialed || c.Closed {
			return
		}
		c.Closed = true
		w.logMQ(LogEntry{Kind: "cclose", Conn: c.Idx})
		c.ws.Close()
	case "ans":
		w.doAnswer(op)
	case "mut", "silent":
		w.doMutate(op)
	case "mutm":
		w.doMutateMany(op)
	case "custom":
		w.doCustom(op)
	case "delete":
		w.mq.Deliver("event."+op.S+".delete", nil)
	case "reaccess":
		w.mq.Deliver("event."+op.S+".reaccess", nil)
	case "qevent":
		w.Svc.qevSeq++
		subj := fmt.Sprintf("_EVQ.%d", w.Svc.qevSeq)
		w.qevSubjects[subj] = op.S
		w.mq.Deliver("event."+op.S+".query", []byte(`{"subject":`+jstr(subj)+`}`))
	case "rawev":
		w.mq.Deliver(op.S, []byte(op.P))
	case "sysreset":
		w.Svc.markFlush(op.P)
		w.mq.Deliver("system.reset", []byte(op.P))
	case "token":
		c := w.client(op.C)
		if c == nil || c.CID == "" {
			return
		}
		var payload string
		switch {
		case op.O == "nomember" && op.S != "":
			// a token event without the token member clears the token like a null token
			payload = `{"tid":` + jstr(op.S) + `}`
		case op.O == "nomember":
			payload = `{}`
		case op.O == "nullpayload":
			payload = `null`
		case op.S != "":
			payload = `{"token":` + op.P + `,"tid":` + jstr(op.S) + `}`
		default:
			payload = `{"token":` + op.P + `}`
		}
		w.mq.Deliver("conn."+c.CID+".token", []byte(payload))
	case "tokreset":
		w.mq.Deliver("system.tokenReset", []byte(op.P))
	case "http":
		w.doHTTP(op)
	case "sleep":
		time.Sleep(time.Duration(op.N) * time.Millisecond)
	case "stop":
		if op.O == "probe" {
			// a WebSocket dial and an HTTP request arrive while Stop is in progress
			w.mq.mu.Lock()
			w.mq.closeHook = w.probeWhileStopping
			w.mq.mu.Unlock()
		}
		if op.S != "" {
			// an event is still being delivered while the messaging client closes
			w.mq.DeliverDuringClose(op.S, []byte(op.P))
		}
		w.doStop()
	case "lose":
		w.doLose()
	case "start":
		w.doStart()
	case "cstall":
		if c := w.client(op.C); c != nil {
			c.setStall(true)
		}
	case "cresume":
		if c := w.client(op.C); c != nil {
			c.setStall(false)
		}
	case "restart":
		// Stop and Start back to back: whatever the stopped run still has to finish
		// finishes while the new run is up
		w.doStop()
		w.doStart()
	}
}

func (c *Client) write(b []byte) {
	c.wmu.Lock()
	defer c.wmu.Unlock()
	c.ws.WriteMessage(websocket.TextMessage, b)
}

// probeWhileStopping is called from within the messaging client's Close, that
// is while Service.Stop is in progress: a new HTTP request and a new WebSocket
// handshake are attempted and their outcome logged (kind "stop_probe").
func (w *World) probeWhileStopping() {
	api := w.Cfg.APIPath
	if api == "" {
		api = "/api/"
	}
	if !strings.HasSuffix(api, "/") {
		api += "/"
	}
	code := -1
	rec := httptest.NewRecorder()
	done := make(chan struct{})
	go func() {
		defer func() { recover(); close(done) }()
		w.svc.ServeHTTP(rec, httptest.NewRequest("GET", api+"t/a", nil))
	}()
	select {
	case <-done:
		code = rec.Code
	case <-time.After(300 * time.Millisecond):
	}
	d, pipe := newPipeDialer(http.HandlerFunc(w.svc.ServeHTTP))
	d.HandshakeTimeout = 30 * time.Millisecond // a refused handshake is not answered at all: keep the wait short
	ws, _, err := d.Dial("ws://example.org/ws", nil)
	accepted := err == nil
	if ws != nil {
		w.probeWS = ws
	}
	w.probePipe = pipe
	w.logMQ(LogEntry{Kind: "stop_probe", Code: code, Err: fmt.Sprintf("ws_accepted=%v", accepted)})
}

func (w *World) doConnect(op Op) {
	idx := len(w.Clients)
	c := &Client{w: w, Idx: idx, Ref: newRefClient(idx), NextID: 1, Headers: op.H}
	w.Clients = append(w.Clients, c)
	w.newActor = idx
	d, pipe := newPipeDialer(http.HandlerFunc(w.svc.ServeHTTP))
	c.pipe = pipe
	h := http.Header{}
	for k, v := range op.H {
		h.Set(k, v)
	}
	ready := make(chan struct{})
	go func() {
		ws, resp, err := d.Dial("ws://example.org/ws", h)
		if err != nil {
			c.DialErr = err.Error()
			if resp != nil {
				c.DialStatus = resp.StatusCode
				c.DialHeader = resp.Header
			}
			c.EOF = true
			w.logMQ(LogEntry{Kind: "dial", Conn: idx, Err: c.DialErr, Code: c.DialStatus, Header: c.DialHeader})
			close(ready)
			return
		}
		c.ws = ws
		c.Dialed = true
		if resp != nil {
			c.DialStatus = resp.StatusCode
			c.DialHeader = resp.Header
		}
		w.logMQ(LogEntry{Kind: "dial", Conn: idx, Code: c.DialStatus, Header: c.DialHeader})
		close(ready)
		for {
			if ch := c.stallCh(); ch != nil {
				waitStall(ch)
			}
			_, data, err := ws.ReadMessage()
			if err != nil {
				c.EOF = true
				w.logMQ(LogEntry{Kind: "eof", Conn: idx, Err: err.Error()})
				return
			}
			w.logMQ(LogEntry{Kind: "frame", Conn: idx, Payload: data})
		}
	}()
	// The dial may block on a wsHeaderAuth request; quiescence is awaited by Exec.
	_ = ready
}

// resolvePending finds the pending request an "ans" op refers to.
// anyActor as the actor of an answer op: whichever connection made the request.
const anyActor = -7

func (w *World) resolvePending(op Op) *PendingReq {
	n := 0
	want := actorDec(op.A)
	for _, p := range w.mq.Pending() {
		if p.Subject != op.S || p.Query != op.Q {
			continue
		}
		if op.A != anyActor && w.ActorOf(p.CID) != want {
			continue
		}
		if n == op.N {
			return p
		}
		n++
	}
	return nil
}

func errJSON(code string) []byte {
	return []byte(`{"error":{"code":` + jstr(code) + `,"message":"` + "E" + `"}}`)
}

func (w *World) doAnswer(op Op) {
	p := w.resolvePending(op)
	if p == nil {
		return
	}
	switch op.O {
	case "timeout":
		w.mq.Complete(p, nil, mq.ErrRequestTimeout)
		return
	case "noresp":
		w.mq.Complete(p, nil, mq.ErrNoResponders)
		return
	case "mqerr":
		w.mq.Complete(p, nil, errMQClosed)
		return
	case "err":
		w.mq.Complete(p, errJSON(op.P), nil)
		return
	case "raw":
		w.mq.Complete(p, []byte(op.P), nil)
		return
	case "result":
		w.mq.Complete(p, []byte(`{"result":`+op.P+`}`), nil)
		return
	case "resource":
		w.mq.Complete(p, []byte(`{"resource":{"rid":`+jstr(op.P)+`}}`), nil)
		return
	}
	// "ok": reference service behaviour
	subj := p.Subject
	switch {
	case strings.HasPrefix(subj, "get."):
		name := subj[4:]
		d := w.Svc.defFor(name, w.CIDs())
		if d == nil || d.Missing {
			if d != nil && (d.ErrMsg != "" || d.ErrData != "") {
				e := `{"error":{"code":"system.notFound","message":` + jstr(d.ErrMsg)
				if d.ErrData != "" {
					e += `,"data":` + d.ErrData
				}
				w.mq.Complete(p, []byte(e+`}}`), nil)
				return
			}
			w.mq.Complete(p, errJSON("system.notFound"), nil)
			return
		}
		norm, ok := d.Norm(p.Query)
		if !ok {
			w.mq.Complete(p, errJSON("system.invalidQuery"), nil)
			return
		}
		v := w.Svc.variant(d, name, norm)
		w.mq.Complete(p, []byte(`{"result":`+v.GetResult()+`}`), nil)
	case strings.HasPrefix(subj, "access."):
		res := op.P
		if res == "" {
			res = `{"get":true,"call":"*"}`
		}
		w.mq.Complete(p, []byte(`{"result":`+res+`}`), nil)
	case strings.HasPrefix(subj, "_EVQ."):
		name := w.qevSubjects[subj]
		d := w.Svc.defFor(name, w.CIDs())
		if d == nil {
			w.mq.Complete(p, errJSON("system.notFound"), nil)
			return
		}
		v := w.Svc.variant(d, name, p.Query)
		switch op.P {
		case "full":
			v.announce()
			w.mq.Complete(p, []byte(`{"result":`+v.resultBody(false)+`}`), nil)
		default:
			w.mq.Complete(p, []byte(`{"result":`+v.QueryEvents()+`}`), nil)
		}
	default:
		res := op.P
		if res == "" {
			res = `{"ok":true}`
		}
		w.mq.Complete(p, []byte(`{"result":`+res+`}`), nil)
	}
}

func (w *World) doMutate(op Op) {
	d := w.Svc.defFor(op.S, w.CIDs())
	if d == nil {
		return
	}
	v := w.Svc.variant(d, op.S, op.Q)
	ev, payload, ok := v.Apply(op.O, op.Key, op.N, op.Val)
	if !ok {
		return
	}
	if op.K == "silent" || op.Q != "" || d.QueryMap != nil {
		w.Svc.everSilent[op.S] = true
		// not announced: the gateway learns about it through a reset or query event
		return
	}
	if w.mq.Deliver("event."+op.S+"."+ev, []byte(payload)) {
		v.applyAnnounced(op.O, op.Key, op.N, op.Val)
	}
}

// doMutateMany sets several keys of a model (op.Par: key and value each) and
// announces them in one change event.
func (w *World) doMutateMany(op Op) {
	d := w.Svc.defFor(op.S, w.CIDs())
	if d == nil || d.QueryMap != nil {
		return
	}
	v := w.Svc.variant(d, op.S, "")
	if v.Type != 'm' {
		return
	}
	var parts []string
	var done []Op
	for _, p := range op.Par {
		if _, _, ok := v.Apply("set", p.Key, 0, p.Val); ok {
			parts = append(parts, jstr(p.Key)+":"+p.Val.ServiceJSON())
			done = append(done, p)
		}
	}
	if len(parts) == 0 {
		return
	}
	if w.mq.Deliver("event."+op.S+".change", []byte(`{"values":{`+strings.Join(parts, ",")+`}}`)) {
		for _, p := range done {
			v.applyAnnounced("set", p.Key, 0, p.Val)
		}
	}
}

func (w *World) doCustom(op Op) {
	d := w.Svc.defFor(op.S, w.CIDs())
	if d == nil {
		return
	}
	v := w.Svc.variant(d, op.S, "")
	v.Seq++
	name := op.M
	if name == "" {
		name = "custom"
	}
	w.mq.Deliver("event."+op.S+"."+name, []byte(fmt.Sprintf(`{"res":%s,"seq":%d}`, jstr(op.S), v.Seq)))
}

func (w *World) doHTTP(op Op) {
	h := &HTTPCall{ID: op.C, Method: op.M, URL: op.S, Header: op.H, Body: op.P}
	w.httpMu.Lock()
	w.HTTP = append(w.HTTP, h)
	w.httpMu.Unlock()
	var sb strings.Builder
	sb.WriteString(op.M + " " + op.S + " HTTP/1.1\r\nHost: example.org\r\n")
	keys := make([]string, 0, len(op.H))
	for k := range op.H {
		keys = append(keys, k)
	}
	sort.Strings(keys)
	for _, k := range keys {
		sb.WriteString(k + ": " + op.H[k] + "\r\n")
	}
	if op.P != "" {
		sb.WriteString(fmt.Sprintf("Content-Length: %d\r\n", len(op.P)))
	}
	sb.WriteString("\r\n")
	sb.WriteString(op.P)
	req, err := http.ReadRequest(bufio.NewReader(strings.NewReader(sb.String())))
	if err != nil {
		h.Rejected = true
		h.Done = true
		w.logMQ(LogEntry{Kind: "http_rejected", HTTP: h.ID, Err: err.Error()})
		return
	}
	req.RemoteAddr = "10.0.0.1:1234"
	w.newActor = 1000 + h.ID
	h.StartT = w.logMQ(LogEntry{Kind: "http_req", HTTP: h.ID, Subject: op.M + " " + op.S})
	go func() {
		rr := httptest.NewRecorder()
		w.svc.ServeHTTP(rr, req)
		w.httpMu.Lock()
		h.Code = rr.Code
		h.RespHeader = rr.Header()
		h.RespBody = rr.Body.Bytes()
		h.Done = true
		w.httpMu.Unlock()
		h.DoneT = w.logMQ(LogEntry{Kind: "http_resp", HTTP: h.ID, Code: rr.Code, Header: rr.Header(), Payload: rr.Body.Bytes()})
	}()
}

func (w *World) doStop() {
	if w.stopped {
		return
	}
	w.noteStalled()
	w.stopped = true
	w.started = false
	ch := w.stopCh
	done := make(chan struct{})
	go func() {
		w.svc.Stop(nil)
		close(done)
	}()
	select {
	case <-done:
	case <-time.After(30 * time.Second):
		w.Deadlock = "Stop did not return within 30s; gateway goroutines: " + gatewayStacks(2500)
		return
	}
	// Stop has returned: whatever a client that was not reading finds on its
	// socket from here on was written to a connection Stop should have closed
	w.logMQ(LogEntry{Kind: "stop_done"})
	w.resumeAll()
	if ch != nil {
		select {
		case err, ok := <-ch:
			if ok {
				if err != nil {
					w.StopSeen = append(w.StopSeen, err.Error())
				} else {
					w.StopSeen = append(w.StopSeen, "<nil>")
				}
			}
		default:
			w.StopSeen = append(w.StopSeen, "<none>")
		}
	}
}

// doLose simulates the loss of the messaging connection and waits for the
// gateway to stop itself.
func (w *World) doLose() {
	if !w.started {
		return
	}
	w.noteStalled()
	ch := w.stopCh
	w.mq.Lose()
	w.stopped = true
	w.started = false
	if ch == nil {
		return
	}
	select {
	case err, ok := <-ch:
		if ok && err != nil {
			w.StopSeen = append(w.StopSeen, err.Error())
		} else {
			w.StopSeen = append(w.StopSeen, "<nil>")
		}
		w.logMQ(LogEntry{Kind: "stop_done"})
		w.resumeAll()
	case <-time.After(15 * time.Second):
		// (Stop itself waits at most 3 s for the messaging client and 5 s for the HTTP server)
		w.Deadlock = "the gateway did not stop within 15s after the messaging connection was lost"
	}
}

func (w *World) doStart() {
	if w.started {
		return
	}
	if err := w.svc.Start(); err != nil {
		w.Failed = "restart failed: " + err.Error()
		return
	}
	w.started = true
	w.stopped = false
	w.stopCh = w.svc.StopChannel()
}

// Shutdown stops the gateway and closes all clients (end of a case).
func (w *World) Shutdown() {
	w.resumeAll()
	if w.probeWS != nil {
		w.probeWS.Close()
	}
	if w.probePipe != nil {
		w.probePipe.Close()
	}
	for _, c := range w.Clients {
		if c.Dialed && !c.Closed {
			c.Closed = true
			c.ws.Close()
		}
	}
	defer func() {
		// unblock dials that never completed
		for _, c := range w.Clients {
			if c.pipe != nil {
				c.pipe.Close()
			}
		}
	}()
	// answer nothing more; just stop
	if w.started {
		done := make(chan struct{})
		go func() {
			w.svc.Stop(nil)
			close(done)
		}()
		// complete pending http calls by failing their requests so Stop does not wait
		deadline := time.After(20 * time.Second)
		tick := time.NewTicker(2 * time.Millisecond)
		defer tick.Stop()
	loop:
		for {
			select {
			case <-done:
				break loop
			case <-deadline:
				w.Failed = "shutdown timeout"
				break loop
			case <-tick.C:
				for _, p := range w.mq.Pending() {
					w.mq.Complete(p, nil, mq.ErrRequestTimeout)
				}
			}
		}
		w.started = false
	}
}

// Metric reads a gauge from the metrics endpoint (-1 if unavailable).
func (w *World) Metric(name string) float64 {
	h := w.svc.MetricsHandler()
	if h == nil {
		return -1
	}
	rr := httptest.NewRecorder()
	req, _ := http.NewRequest("GET", "/metrics", nil)
	h.ServeHTTP(rr, req)
	for _, line := range strings.Split(rr.Body.String(), "\n") {
		if strings.HasPrefix(line, name+" ") {
			var f float64
			fmt.Sscanf(line[len(name)+1:], "%g", &f)
			return f
		}
	}
	return -1
}

// LogErrors returns errors the gateway logged.
func (w *World) LogErrors() []string {
	w.logr.mu.Lock()
	defer w.logr.mu.Unlock()
	return append([]string(nil), w.logr.errs...)
}

// Monitor is a per-property oracle fed by the log.
type Monitor interface {
	OnLog(w *World, e *LogEntry)
	OnStepEnd(w *World, step int)
	// OnEnd is called after the end-of-history epilogue.
	OnEnd(w *World) []Violation
	Classes() map[string]int
	NonTrivial() bool
}

type Violation struct {
	Property string `json:"property"`
	Class    string `json:"class"`
	Message  string `json:"message"`
	Step     int    `json:"step"`
	Conn     int    `json:"conn"`
	RID      string `json:"rid,omitempty"`
	T        int    `json:"t,omitempty"`
	Other    string `json:"other,omitempty"`
}

func jsonCompact(b []byte) string {
	var v interface{}
	if json.Unmarshal(b, &v) != nil {
		return string(b)
	}
	o, _ := json.Marshal(v)
	return string(o)
}

// gatewayStacks: the stacks of the goroutines that are inside gateway code
// (diagnostics for a Stop that does not return), shortened to the function names.
func gatewayStacks(limit int) string {
	var out []string
	for _, block := range strings.Split(DumpAll(), "\n\n") {
		if !strings.Contains(block, "resgateio/resgate/server") {
			continue
		}
		var fns []string
		for i, ln := range strings.Split(block, "\n") {
			if i == 0 {
				fns = append(fns, ln)
				continue
			}
			if strings.HasPrefix(ln, "\t") || strings.HasPrefix(ln, "created by") {
				continue
			}
			if j := strings.LastIndexByte(ln, '('); j > 0 {
				ln = ln[:j]
			}
			if j := strings.LastIndexByte(ln, '/'); j >= 0 {
				ln = ln[j+1:]
			}
			fns = append(fns, ln)
			if len(fns) > 9 {
				break
			}
		}
		out = append(out, strings.Join(fns, " < "))
	}
	r := strings.Join(out, " || ")
	if len(r) > limit {
		r = r[:limit]
	}
	return r
}

// freePort returns a loopback TCP port that was free when asked.
func freePort() int {
	ln, err := net.Listen("tcp", "127.0.0.1:0")
	if err != nil {
		return 0
	}
	defer ln.Close()
	return ln.Addr().(*net.TCPAddr).Port
}

// OwnListener reports whether this process holds a listening TCP socket on
// the loopback port (another process that was handed the same port number in
// the meantime does not count). Without /proc it falls back to PortOpen.
func OwnListener(port int) bool {
	b, err := os.ReadFile("/proc/net/tcp")
	if err != nil {
		return PortOpen(port)
	}
	inodes := map[string]bool{}
	for _, ln := range strings.Split(string(b), "\n")[1:] {
		f := strings.Fields(ln)
		if len(f) < 10 || f[3] != "0A" {
			continue
		}
		i := strings.LastIndexByte(f[1], ':')
		if i < 0 {
			continue
		}
		if p, err := strconv.ParseInt(f[1][i+1:], 16, 32); err == nil && int(p) == port {
			inodes[f[9]] = true
		}
	}
	if len(inodes) == 0 {
		return false
	}
	fds, err := os.ReadDir("/proc/self/fd")
	if err != nil {
		return PortOpen(port)
	}
	for _, fd := range fds {
		if l, err := os.Readlink("/proc/self/fd/" + fd.Name()); err == nil && strings.HasPrefix(l, "socket:[") && inodes[l[8:len(l)-1]] {
			return true
		}
	}
	return false
}

// PortOpen reports whether something accepts TCP connections on the loopback port.
func PortOpen(port int) bool {
	c, err := net.DialTimeout("tcp", fmt.Sprintf("127.0.0.1:%d", port), 500*time.Millisecond)
	if err != nil {
		return false
	}
	c.Close()
	return true
}
