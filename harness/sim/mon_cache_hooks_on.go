//go:build verif

package sim

import "strings"

// checkCounts is the secondary (hook) invariant: at a quiescent point every cache
// entry's use count equals its subscribers plus the pending requests that use it.
func (m *MonC09) checkCounts(w *World) {
	if !w.started || w.Failed != "" || w.Deadlock != "" {
		return
	}
	pend := map[string]int{}
	for _, p := range w.mq.Pending() {
		if strings.HasPrefix(p.Subject, "get.") {
			continue
		}
		if n := nameOfSubject(p.Subject); n != "" {
			pend[n]++
		}
	}
	for _, e := range w.CacheSnapshot() {
		if e.Count < 0 {
			m.violate(w, "negative_use_count", "cache entry %s has use count %d", trunc(e.Name, 60), e.Count)
			continue
		}
		if e.Locked || e.QueueLen > 0 {
			continue
		}
		subs := 0
		for _, r := range e.Resources {
			subs += r.Subscribers
		}
		// subscribers reachable through links are listed once (VerifSnapshot dedups)
		if int(e.Count) != subs+pend[e.Name] {
			m.violate(w, "use_count_mismatch", "cache entry %s: use count %d but %d subscribers and %d pending requests", trunc(e.Name, 60), e.Count, subs, pend[e.Name])
		}
		m.class("count_checked")
	}
}
