//go:build !verif

package sim

import (
	"time"

	"github.com/resgateio/resgate/server"
)

// HooksEnabled reports whether the verif build tag hooks are compiled in.
const HooksEnabled = false

func setUnsubDelay(s *server.Service, d time.Duration) {}

// VerifEntry mirrors rescache.VerifEntry when hooks are unavailable.
type verifEntryStub struct{}

// CacheSnapshot returns nil without hooks.
func (w *World) CacheSnapshot() []verifEntryStub { return nil }

// ConnSnapshot returns nil without hooks.
func (w *World) ConnSnapshot() []verifEntryStub { return nil }
