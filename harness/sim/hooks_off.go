//go:build !verif

package sim

import (
	"time"

	"github.com/resgateio/resgate/server"
)

// HooksEnabled reports whether the verif build tag hooks are compiled in.
const HooksEnabled = false

func setUnsubDelay(s *server.Service, d time.Duration) {}
