package sim

import (
	"fmt"
	"testing"
	"time"
)

func TestSmoke(t *testing.T) {
	cfg := WorldConfig{Resources: []ResDef{
		{Name: "t.a", Type: "model", Model: map[string]Val{"x": Prim("1"), "r": Ref("t.b")}},
		{Name: "t.b", Type: "collection", Coll: []Val{Prim("1"), Prim("2")}},
	}, Metrics: true}
	start := time.Now()
	w, err := NewWorld(cfg)
	if err != nil {
		t.Fatal(err)
	}
	w.Settle()
	w.Exec(Op{K: "connect"})
	w.Exec(Op{K: "creq", C: 0, ID: 1, M: "version", P: `{"protocol":"1.2.3"}`})
	w.Exec(Op{K: "creq", C: 0, ID: 2, M: "subscribe.t.a"})
	for _, p := range w.mq.Pending() {
		fmt.Println("pending", p.Subject, w.ActorOf(p.CID), string(p.Payload))
	}
	w.Exec(Op{K: "ans", S: "access.t.a", A: actorEnc(0), O: "ok"})
	w.Exec(Op{K: "ans", S: "get.t.a", O: "ok"})
	w.Exec(Op{K: "ans", S: "get.t.b", O: "ok"})
	v := Prim("5")
	w.Exec(Op{K: "mut", S: "t.a", O: "set", Key: "x", Val: &v})
	w.Exec(Op{K: "http", C: 0, M: "GET", S: "/api/t/a"})
	for _, p := range w.mq.Pending() {
		fmt.Println("pending", p.Subject, w.ActorOf(p.CID), string(p.Payload))
	}
	w.Exec(Op{K: "ans", S: "access.t.a", A: actorEnc(1000), O: "ok"})
	fmt.Println("resources", w.Metric("resgate_cache_resources"), w.Metric("resgate_cache_subscriptions"))
	for _, e := range w.Log() {
		fmt.Printf("%3d s%d %-12s c%d %s %s %s %d\n", e.T, e.Step, e.Kind, e.Conn, e.Subject, e.Payload, e.Err, e.Code)
	}
	fmt.Println("held", w.Clients[0].Ref.HeldRIDs(), w.Clients[0].Ref.Viol, w.Clients[0].Ref.Held["t.a"].Model)
	fmt.Println("failed", w.Failed, w.Deadlock, "dumps", w.stats.Dumps, time.Since(start))
	w.Shutdown()
	time.Sleep(10 * time.Millisecond)
	fmt.Println(dump())
}
