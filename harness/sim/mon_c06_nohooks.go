//go:build !verif

package sim

func queueFlags(w *World) map[string]int { return nil }
