//go:build !verif

package sim

func queueFlags(w *World) map[string]int { return nil }

func stalledSubscriptions(w *World) []string { return nil }

func directCounts(w *World) map[string]int { return nil }
