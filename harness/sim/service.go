package sim

import (
	"encoding/json"
	"fmt"
	"sort"
	"strings"
)

// ResDef defines one resource of the reference service.
type ResDef struct {
	Name  string         `json:"name"`
	Type  string         `json:"type"` // "model" | "collection"
	Model map[string]Val `json:"model,omitempty"`
	Coll  []Val          `json:"coll,omitempty"`
	// QueryMap: raw query -> normalised query. nil for a non-query resource
	// (every query then normalises to ""). The raw query "" may map to a
	// non-empty normalised query.
	QueryMap map[string]string `json:"qmap,omitempty"`
	// PerCID: the name contains {cid}; one instance per connection is created lazily.
	PerCID bool `json:"percid,omitempty"`
	// Missing: get requests are answered with system.notFound.
	Missing bool `json:"missing,omitempty"`
	// ErrMsg / ErrData: message and data member of the system.notFound error a
	// missing resource is answered with (default message "E", no data)
	ErrMsg  string `json:"errmsg,omitempty"`
	ErrData string `json:"errdata,omitempty"`
	// AnyQuery: every raw query is accepted and normalises to itself.
	AnyQuery bool `json:"anyquery,omitempty"`
}

// Variant is the state of one (name, normalised query) resource.
type Variant struct {
	Name  string
	Query string
	Type  byte // 'm' | 'c'
	Model map[string]Val
	Coll  []Val
	// Announced: the state the service last told the gateway (get answer,
	// event, query answer, reset re-fetch).
	AModel map[string]Val
	AColl  []Val
	// Told: the service has given this variant to the gateway at least once since
	// the last time no event subscription existed.
	Seq     int // sequence number of custom events
	Counter int
	// Flush: a system.reset (or query event) covering this variant has been
	// published since the last silent mutation: the next get answer serves the
	// actual state. Until then get answers serve the announced view, i.e. silent
	// mutations become visible to the gateway-facing side only through a reset
	// or query event, as the protocol demands of a service.
	Flush bool
}

func (v *Variant) key() string { return v.Name + "?" + v.Query }

func cloneModel(m map[string]Val) map[string]Val {
	r := make(map[string]Val, len(m))
	for k, x := range m {
		r[k] = x
	}
	return r
}

func cloneColl(c []Val) []Val { return append([]Val(nil), c...) }

func (v *Variant) announce() {
	if v.Type == 'm' {
		v.AModel = cloneModel(v.Model)
	} else {
		v.AColl = cloneColl(v.Coll)
	}
}

// Service is the reference RES service.
type Service struct {
	defs     map[string]*ResDef
	variants map[string]*Variant
	fresh    int
	qevSeq   int
	// everSilent: names with at least one silent mutation in this history
	everSilent map[string]bool
}

func newService(defs []ResDef) *Service {
	s := &Service{defs: map[string]*ResDef{}, variants: map[string]*Variant{}, everSilent: map[string]bool{}}
	for i := range defs {
		d := defs[i]
		s.defs[d.Name] = &d
	}
	return s
}

// def returns the definition for a (cid-expanded) resource name.
func (s *Service) def(name string) *ResDef {
	if d, ok := s.defs[name]; ok {
		return d
	}
	return nil
}

// defFor finds the definition for an expanded name, also matching {cid} templates.
func (s *Service) defFor(name string, cids []string) *ResDef {
	if d := s.def(name); d != nil {
		return d
	}
	for _, d := range s.defs {
		if !d.PerCID {
			continue
		}
		for _, cid := range cids {
			if strings.Replace(d.Name, "{cid}", cid, -1) == name {
				return d
			}
		}
	}
	return nil
}

// Norm returns the normalised query for a raw query on a resource, ok=false
// if the service rejects the query.
func (d *ResDef) Norm(raw string) (string, bool) {
	if d.AnyQuery {
		return raw, true
	}
	if d.QueryMap == nil {
		return "", true
	}
	n, ok := d.QueryMap[raw]
	return n, ok
}

// variant returns (creating lazily) the variant for an expanded name and normalised query.
func (s *Service) variant(d *ResDef, name, norm string) *Variant {
	k := name + "?" + norm
	if v, ok := s.variants[k]; ok {
		return v
	}
	v := &Variant{Name: name, Query: norm}
	if d.Type == "collection" {
		v.Type = 'c'
		v.Coll = cloneColl(d.Coll)
		if norm != "" && !d.AnyQuery {
			// make variants differ a little
			v.Coll = append(v.Coll, Prim(jstr("q:"+norm)))
		}
	} else {
		v.Type = 'm'
		v.Model = cloneModel(d.Model)
		if norm != "" && !d.AnyQuery {
			v.Model["q"] = Prim(jstr(norm))
		}
	}
	s.variants[k] = v
	return v
}

func (s *Service) lookupVariant(name, norm string) *Variant {
	return s.variants[name+"?"+norm]
}

// Fresh returns a fresh primitive value.
func (s *Service) Fresh() Val {
	s.fresh++
	return Prim(fmt.Sprintf("%d", 1000+s.fresh))
}

func modelJSON(m map[string]Val, f func(Val) string) string {
	keys := make([]string, 0, len(m))
	for k := range m {
		keys = append(keys, k)
	}
	sort.Strings(keys)
	var sb strings.Builder
	sb.WriteByte('{')
	for i, k := range keys {
		if i > 0 {
			sb.WriteByte(',')
		}
		sb.WriteString(jstr(k))
		sb.WriteByte(':')
		sb.WriteString(f(m[k]))
	}
	sb.WriteByte('}')
	return sb.String()
}

func collJSON(c []Val, f func(Val) string) string {
	var sb strings.Builder
	sb.WriteByte('[')
	for i, v := range c {
		if i > 0 {
			sb.WriteByte(',')
		}
		sb.WriteString(f(v))
	}
	sb.WriteByte(']')
	return sb.String()
}

// GetResult renders the result object of a get response and announces the state.
func (v *Variant) GetResult() string {
	never := (v.Type == 'm' && v.AModel == nil) || (v.Type == 'c' && v.AColl == nil)
	if never || v.Flush {
		v.announce()
		v.Flush = false
	}
	return v.announcedBody(true)
}

// announcedBody renders the announced view.
func (v *Variant) announcedBody(withQuery bool) string {
	var body string
	if v.Type == 'm' {
		body = `"model":` + modelJSON(v.AModel, Val.ServiceJSON)
	} else {
		body = `"collection":` + collJSON(v.AColl, Val.ServiceJSON)
	}
	if withQuery && v.Query != "" {
		body += `,"query":` + jstr(v.Query)
	}
	return "{" + body + "}"
}

// applyAnnounced applies an announced event's delta to the announced view.
func (v *Variant) applyAnnounced(kind, key string, idx int, val *Val) {
	switch kind {
	case "set":
		if v.AModel != nil && val != nil {
			v.AModel[key] = *val
		}
	case "del":
		if v.AModel != nil {
			delete(v.AModel, key)
		}
	case "add":
		if v.AColl != nil && val != nil && idx >= 0 && idx <= len(v.AColl) {
			c := make([]Val, 0, len(v.AColl)+1)
			c = append(c, v.AColl[:idx]...)
			c = append(c, *val)
			c = append(c, v.AColl[idx:]...)
			v.AColl = c
		}
	case "rem":
		if v.AColl != nil && idx >= 0 && idx < len(v.AColl) {
			c := make([]Val, 0, len(v.AColl))
			c = append(c, v.AColl[:idx]...)
			c = append(c, v.AColl[idx+1:]...)
			v.AColl = c
		}
	}
}

func (v *Variant) resultBody(withQuery bool) string {
	var body string
	if v.Type == 'm' {
		body = `"model":` + modelJSON(v.Model, Val.ServiceJSON)
	} else {
		body = `"collection":` + collJSON(v.Coll, Val.ServiceJSON)
	}
	if withQuery && v.Query != "" {
		body += `,"query":` + jstr(v.Query)
	}
	return "{" + body + "}"
}

// Mutation kinds: "set" (model key), "del" (model key), "add" (collection idx), "rem" (collection idx)

// Apply applies a mutation to the actual state. It returns the event name and
// payload that announce it, or ok=false if the mutation is not applicable
// (wrong type, index out of range, no actual change).
func (v *Variant) Apply(kind, key string, idx int, val *Val) (ev string, payload string, ok bool) {
	switch kind {
	case "set":
		if v.Type != 'm' || val == nil {
			return
		}
		if old, has := v.Model[key]; has && old.Equal(*val) {
			return
		}
		v.Model[key] = *val
		return "change", `{"values":{` + jstr(key) + `:` + val.ServiceJSON() + `}}`, true
	case "del":
		if v.Type != 'm' {
			return
		}
		if _, has := v.Model[key]; !has {
			return
		}
		delete(v.Model, key)
		return "change", `{"values":{` + jstr(key) + `:{"action":"delete"}}}`, true
	case "add":
		if v.Type != 'c' || val == nil || idx < 0 || idx > len(v.Coll) {
			return
		}
		c := make([]Val, 0, len(v.Coll)+1)
		c = append(c, v.Coll[:idx]...)
		c = append(c, *val)
		c = append(c, v.Coll[idx:]...)
		v.Coll = c
		return "add", fmt.Sprintf(`{"idx":%d,"value":%s}`, idx, val.ServiceJSON()), true
	case "rem":
		if v.Type != 'c' || idx < 0 || idx >= len(v.Coll) {
			return
		}
		c := make([]Val, 0, len(v.Coll))
		c = append(c, v.Coll[:idx]...)
		c = append(c, v.Coll[idx+1:]...)
		v.Coll = c
		return "remove", fmt.Sprintf(`{"idx":%d}`, idx), true
	}
	return
}

// Dirty reports whether the actual state differs from the announced state.
func (v *Variant) Dirty() bool {
	if v.Type == 'm' {
		if v.AModel == nil {
			return false
		}
		if len(v.Model) != len(v.AModel) {
			return true
		}
		for k, x := range v.Model {
			if y, ok := v.AModel[k]; !ok || !x.Equal(y) {
				return true
			}
		}
		return false
	}
	if v.AColl == nil {
		return false
	}
	if len(v.Coll) != len(v.AColl) {
		return true
	}
	for i := range v.Coll {
		if !v.Coll[i].Equal(v.AColl[i]) {
			return true
		}
	}
	return false
}

// QueryEvents renders the events that take the announced state to the actual
// state (as a service answering a query request would), and announces.
func (v *Variant) QueryEvents() string {
	var evs []string
	if (v.Type == 'm' && v.AModel == nil) || (v.Type == 'c' && v.AColl == nil) {
		v.announce()
		return `{"events":[]}`
	}
	if v.Type == 'm' {
		keys := map[string]bool{}
		for k := range v.Model {
			keys[k] = true
		}
		for k := range v.AModel {
			keys[k] = true
		}
		var ks []string
		for k := range keys {
			ks = append(ks, k)
		}
		sort.Strings(ks)
		var parts []string
		for _, k := range ks {
			nv, has := v.Model[k]
			ov, had := v.AModel[k]
			switch {
			case has && (!had || !nv.Equal(ov)):
				parts = append(parts, jstr(k)+":"+nv.ServiceJSON())
			case !has && had:
				parts = append(parts, jstr(k)+`:{"action":"delete"}`)
			}
		}
		if len(parts) > 0 {
			evs = append(evs, `{"event":"change","data":{"values":{`+strings.Join(parts, ",")+`}}}`)
		}
	} else {
		// naive: remove everything from the back, then add everything
		if !collEqual(v.Coll, v.AColl) {
			// trim common prefix
			p := 0
			for p < len(v.Coll) && p < len(v.AColl) && v.Coll[p].Equal(v.AColl[p]) {
				p++
			}
			for i := len(v.AColl) - 1; i >= p; i-- {
				evs = append(evs, fmt.Sprintf(`{"event":"remove","data":{"idx":%d}}`, i))
			}
			for i := p; i < len(v.Coll); i++ {
				evs = append(evs, fmt.Sprintf(`{"event":"add","data":{"idx":%d,"value":%s}}`, i, v.Coll[i].ServiceJSON()))
			}
		}
	}
	v.announce()
	return `{"events":[` + strings.Join(evs, ",") + `]}`
}

func collEqual(a, b []Val) bool {
	if len(a) != len(b) {
		return false
	}
	for i := range a {
		if !a[i].Equal(b[i]) {
			return false
		}
	}
	return true
}

// markFlush marks the variants covered by a system.reset payload's resource
// patterns: their next get answer serves the actual state.
func (s *Service) markFlush(payload string) {
	var p struct {
		Resources []string `json:"resources"`
	}
	if json.Unmarshal([]byte(payload), &p) != nil {
		return
	}
	for _, v := range s.variants {
		for _, pat := range p.Resources {
			if RefPatternMatch(pat, v.Name) {
				v.Flush = true
			}
		}
	}
}

// RefPatternValid is the reference validity predicate for resource patterns:
// non-empty dot-separated tokens of printable non-space ASCII without '?',
// '*' only as a whole token, '>' only as the whole last token.
func RefPatternValid(p string) bool {
	if p == "" {
		return false
	}
	toks := strings.Split(p, ".")
	for i, t := range toks {
		if t == "" {
			return false
		}
		for j := 0; j < len(t); j++ {
			b := t[j]
			if b < 33 || b > 126 || b == '?' {
				return false
			}
			if (b == '*' || b == '>') && len(t) != 1 {
				return false
			}
		}
		if t == ">" && i != len(toks)-1 {
			return false
		}
	}
	return true
}

// RefPatternMatch is the reference matcher: * is exactly one token, > is one or more trailing tokens.
func RefPatternMatch(p, name string) bool {
	if !RefPatternValid(p) || name == "" {
		return false
	}
	pt := strings.Split(p, ".")
	nt := strings.Split(name, ".")
	for i, t := range pt {
		if t == ">" {
			return len(nt) > i
		}
		if i >= len(nt) {
			return false
		}
		if t != "*" && t != nt[i] {
			return false
		}
	}
	return len(pt) == len(nt)
}
