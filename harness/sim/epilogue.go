package sim

import (
	"sort"
	"strings"
)

// Epilogue drives the world to a quiescent end state (EOH, DESIGN.md section 6):
// every pending request is answered successfully in canonical order, every
// dirty resource is reset and its re-fetch answered, until nothing is pending.
func (w *World) Epilogue() {
	if w.Failed != "" || w.Deadlock != "" || !w.started {
		return
	}
	w.step = len(w.Script) // epilogue steps are numbered after the script
	// Resources that were ever mutated silently are reset once more at the end,
	// whatever the reference service believes it has announced: a re-fetch that
	// was answered with an error, or an answer the gateway had no use for, leaves
	// both sides in doubt, and a final reset is what the protocol prescribes.
	if len(w.Svc.everSilent) > 0 {
		w.drainPending()
		var names []string
		for n := range w.Svc.everSilent {
			names = append(names, jstr(n))
		}
		sort.Strings(names)
		w.execEpilogue(Op{K: "sysreset", P: `{"resources":[` + strings.Join(names, ",") + `]}`})
	}
	for round := 0; round < 6; round++ {
		w.drainPending()
		if w.Failed != "" || w.Deadlock != "" {
			return
		}
		// flush dirty variants with a reset
		var names []string
		seen := map[string]bool{}
		for _, v := range w.Svc.variants {
			if v.Dirty() && !seen[v.Name] {
				seen[v.Name] = true
				names = append(names, jstr(v.Name))
			}
		}
		if len(names) == 0 {
			break
		}
		sort.Strings(names)
		w.execEpilogue(Op{K: "sysreset", P: `{"resources":[` + strings.Join(names, ",") + `]}`})
		if w.mq.PendingCount() == 0 {
			// nothing cached for the dirty resources
			break
		}
	}
	w.drainPending()
}

func (w *World) execEpilogue(op Op) {
	w.execOne(op)
	w.Settle()
	for _, m := range w.Monitors {
		m.OnStepEnd(w, w.step)
	}
	w.step++
}

func (w *World) drainPending() {
	for i := 0; i < 2000; i++ {
		ps := w.PendingSorted()
		if len(ps) == 0 {
			return
		}
		// oldest first
		best := ps[0]
		for _, p := range ps {
			if p.P.Seq < best.P.Seq {
				best = p
			}
		}
		w.execEpilogue(Op{K: "ans", S: best.P.Subject, Q: best.P.Query, A: actorEnc(best.Actor), N: best.Ord, O: "ok"})
		if w.Failed != "" || w.Deadlock != "" {
			return
		}
	}
	w.Failed = "epilogue did not terminate"
}
