package sim

import (
	"encoding/json"
	"fmt"
	"net/textproto"
	"reflect"
	"sort"
	"strings"

	"pgregory.net/rapid"
)

// MonScn is a plain violation/class holder for scenario properties whose
// oracle is evaluated by the scenario code itself.
type MonScn struct{ baseMon }

func NewMonScn(prop string) *MonScn          { m := &MonScn{}; m.init(prop); return m }
func (m *MonScn) OnEnd(w *World) []Violation { return m.viols }

func scnMon(w *World) *MonScn {
	for _, x := range w.Monitors {
		if c, ok := x.(*MonScn); ok {
			return c
		}
	}
	return nil
}

// ---------------------------------------------------------------------------
// C16: HTTP rendering

var c16Keys = []string{"a", "b", "r", `q"uote`, "é", "", "sl\\ash", "<tag>", "nl\n", "bell\x07", "unit\x1f", "del\x7f", "soh\x01", "tag\U000e0001", "\u2028ls", "tab\t"}

func c16Config(t *rapid.T, p *Profile) WorldConfig {
	n := rapid.IntRange(1, 6).Draw(t, "nres")
	names := make([]string, n)
	for i := range names {
		names[i] = fmt.Sprintf("t.r%d", i)
	}
	targets := append(append([]string{}, names...), "t.m", "t.q?a=1", "t.q?b=1", "t.q?c=1", "t.q")
	val := func() Val {
		switch k := rapid.IntRange(0, 11).Draw(t, "vk"); {
		case k < 5:
			return Ref(rapid.SampledFrom(targets).Draw(t, "ref"))
		case k < 6:
			return Soft(rapid.SampledFrom(targets).Draw(t, "soft"))
		case k < 8:
			return Data(rapid.SampledFrom([]string{`{"x":[1,{"y":null}]}`, `[]`, `[[1],{"a":"é\""}]`, `{"rid":"t.r0"}`, `{"hrefs":"x"}`}).Draw(t, "data"))
		default:
			return Prim(rapid.SampledFrom([]string{`1`, `-0.5`, `"s"`, `"q\"uote"`, `"é\u0000"`, `true`, `null`, `""`, `"</script>"`}).Draw(t, "prim"))
		}
	}
	var defs []ResDef
	for _, name := range names {
		if rapid.IntRange(0, 2).Draw(t, "coll") == 0 {
			k := rapid.IntRange(0, 4).Draw(t, "clen")
			c := []Val{}
			for i := 0; i < k; i++ {
				c = append(c, val())
			}
			defs = append(defs, ResDef{Name: name, Type: "collection", Coll: c})
		} else {
			k := rapid.IntRange(0, 4).Draw(t, "mlen")
			m := map[string]Val{}
			for i := 0; i < k; i++ {
				m[rapid.SampledFrom(c16Keys).Draw(t, "key")] = val()
			}
			defs = append(defs, ResDef{Name: name, Type: "model", Model: m})
		}
	}
	missing := ResDef{Name: "t.m", Type: "model", Missing: true}
	if rapid.Bool().Draw(t, "customerr") {
		missing.ErrMsg = rapid.SampledFrom([]string{"Gone \"for\" good", "Not found", "é"}).Draw(t, "errmsg")
		missing.ErrData = rapid.SampledFrom([]string{"", `{"id":2}`, `[1,"x"]`, `"s"`}).Draw(t, "errdata")
	}
	defs = append(defs, missing,
		// query variants of one name referencing each other (pagination): each is a
		// resource of its own for cycle cutting
		ResDef{Name: "t.q", Type: "model", Model: map[string]Val{"x": Prim("1"), "back": Ref("t.r0"),
			"next": Ref(rapid.SampledFrom([]string{"t.q?b=1", "t.q?a=1", "t.q?c=1", "t.q", "t.r0"}).Draw(t, "qnext"))},
			QueryMap: map[string]string{"a=1": "a=1", "b=1": "b=1", "c=1": "a=1"}})
	return WorldConfig{Resources: defs,
		APIEncoding: rapid.SampledFrom([]string{"json", "jsonflat"}).Draw(t, "encoding"),
		APIPath:     rapid.SampledFrom([]string{"/api/", "/", "/v1/res/"}).Draw(t, "apipath")}
}

// refRender is the independent reference renderer. href values are rendered as
// {"$href": rid} and compared by round trip.
func refRender(svc *Service, rid string, path []string, flat, root bool) interface{} {
	name, q := splitRID(rid)
	d := svc.def(name)
	href := map[string]interface{}{"$href": rid}
	for _, p := range path {
		if p == rid {
			return href
		}
	}
	wrap := func(kind string, content interface{}) interface{} {
		if root || flat {
			return content
		}
		return map[string]interface{}{"$href": rid, kind: content}
	}
	if d == nil || d.Missing {
		e := map[string]interface{}{"$error": "system.notFound", "message": "E"}
		if d != nil && (d.ErrMsg != "" || d.ErrData != "") {
			e["message"] = d.ErrMsg
			if d.ErrData != "" {
				e["data"] = mustParse(d.ErrData)
			}
		}
		return wrap("error", e)
	}
	norm, ok := d.Norm(q)
	if !ok {
		return wrap("error", map[string]interface{}{"$error": "system.invalidQuery", "message": "E"})
	}
	v := svc.variant(d, name, norm)
	path = append(path, rid)
	rv := func(x Val) interface{} {
		switch x.K {
		case 'r':
			return refRender(svc, x.R, path, flat, false)
		case 's':
			return map[string]interface{}{"$href": x.R}
		case 'd':
			return mustParse(x.R)
		}
		return mustParse(x.R)
	}
	if v.Type == 'm' {
		m := map[string]interface{}{}
		for k, x := range v.Model {
			m[k] = rv(x)
		}
		return wrap("model", m)
	}
	c := make([]interface{}, 0, len(v.Coll))
	for _, x := range v.Coll {
		c = append(c, rv(x))
	}
	return wrap("collection", c)
}

// normaliseRendered rewrites the gateway's body into the reference form: href
// strings become {"$href": rid} through the reference path decoder, error
// objects become {"$error": code}.
func normaliseRendered(v interface{}, api string, bad *[]string) interface{} {
	switch x := v.(type) {
	case map[string]interface{}:
		if h, ok := x["href"].(string); ok && (len(x) == 1 || (len(x) == 2 && (x["model"] != nil || x["collection"] != nil || x["error"] != nil))) {
			rid, _, ok := refHTTPTarget(h, api, "GET")
			if !ok {
				*bad = append(*bad, h)
			}
			out := map[string]interface{}{"$href": rid}
			for k, val := range x {
				if k == "href" {
					continue
				}
				if k == "error" {
					out[k] = normaliseErr(val)
				} else {
					out[k] = normaliseRendered(val, api, bad)
				}
			}
			return out
		}
		if code, ok := x["code"].(string); ok && strings.HasPrefix(code, "system.") && x["message"] != nil && len(x) <= 3 {
			return normaliseErr(x)
		}
		out := map[string]interface{}{}
		for k, val := range x {
			out[k] = normaliseRendered(val, api, bad)
		}
		return out
	case []interface{}:
		out := make([]interface{}, len(x))
		for i, val := range x {
			out[i] = normaliseRendered(val, api, bad)
		}
		return out
	}
	return v
}

func normaliseErr(v interface{}) interface{} {
	if m, ok := v.(map[string]interface{}); ok {
		if code, ok := m["code"].(string); ok {
			// a failed reference is rendered as the service's error: code, message and data
			out := map[string]interface{}{"$error": code, "message": m["message"]}
			if d, has := m["data"]; has {
				out["data"] = d
			}
			return out
		}
	}
	return v
}

func apiOf(w *World) string {
	api := w.Cfg.APIPath
	if api == "" {
		api = "/api/"
	}
	if !strings.HasSuffix(api, "/") {
		api += "/"
	}
	return api
}

func httpDo(w *World, id int, method, url string, hdr map[string]string, body string) *HTTPCall {
	w.Exec(Op{K: "http", C: id, M: method, S: url, H: hdr, P: body})
	return w.httpByID(id)
}

func answerAllOK(w *World) {
	for i := 0; i < 500; i++ {
		ps := w.PendingSorted()
		if len(ps) == 0 {
			return
		}
		best := ps[0]
		for _, p := range ps {
			if p.P.Seq < best.P.Seq {
				best = p
			}
		}
		w.Exec(Op{K: "ans", S: best.P.Subject, Q: best.P.Query, A: actorEnc(best.Actor), N: best.Ord, O: "ok"})
		if w.Failed != "" || w.Deadlock != "" {
			return
		}
	}
}

func c16Scenario(t *rapid.T, w *World, p *Profile) {
	api := apiOf(w)
	id := 0
	var rids []string
	for _, d := range w.Cfg.Resources {
		if d.QueryMap == nil {
			rids = append(rids, d.Name)
		}
	}
	rids = append(rids, "t.q?a=1", "t.q?b=1", "t.q?c=1")
	k := rapid.IntRange(1, 3).Draw(t, "ngets")
	for i := 0; i < k; i++ {
		rid := rapid.SampledFrom(rids).Draw(t, "rid")
		pth, q := ridToPath(rid)
		url := api + pth
		if q != "" {
			url += "?" + q
		}
		id++
		httpDo(w, id, "GET", url, nil, "")
		if i == k-1 && rapid.IntRange(0, 2).Draw(t, "evwhileloading") == 0 {
			c16EventsWhileLoading(t, w)
		}
		answerAllOK(w)
		id++
		httpDo(w, id, "HEAD", url, nil, "")
		answerAllOK(w)
	}
	// a GET and a HEAD of a resource whose own get request is answered with a
	// drawn error: HEAD is handled exactly as GET, whatever the error is
	if rapid.IntRange(0, 2).Draw(t, "rooterr") == 0 {
		rid := rapid.SampledFrom(rids).Draw(t, "rooterrrid")
		name, _ := splitRID(rid)
		code := rapid.SampledFrom([]string{"system.methodNotFound", "system.internalError", "system.accessDenied", "system.invalidParams", "custom.code", "system.timeout", "system.notFound"}).Draw(t, "rooterrcode")
		pth, q := ridToPath(rid)
		url := api + pth
		if q != "" {
			url += "?" + q
		}
		url += map[bool]string{true: "&", false: "?"}[q != ""] + "rooterr=1" // a URL of its own for the pair
		for _, method := range []string{"GET", "HEAD"} {
			id++
			w.Exec(Op{K: "http", C: id, M: method, S: url, Key: "c16:rooterr"})
			for i := 0; i < 40; i++ {
				ps := w.PendingSorted()
				if len(ps) == 0 {
					break
				}
				pv := ps[0]
				op := Op{K: "ans", S: pv.P.Subject, Q: pv.P.Query, A: actorEnc(pv.Actor), N: pv.Ord, O: "ok"}
				if pv.P.Subject == "get."+name {
					op.O, op.P = "err", code
				}
				w.Exec(op)
			}
		}
	}
	// POST: result verbatim, 204 for null, Location for resource responses
	if rapid.Bool().Draw(t, "post") {
		kind := rapid.SampledFrom([]string{"result", "null", "resource"}).Draw(t, "postkind")
		result := rapid.SampledFrom([]string{`{"a":[1,"é"]}`, `5`, `"s"`, `[]`, `{"rid":"t.r0"}`, `  {"sp" : 1}`}).Draw(t, "postresult")
		id++
		httpDo(w, id, "POST", api+"t/r0/set", nil, `{"x":1}`)
		for i := 0; i < 20; i++ {
			ps := w.PendingSorted()
			if len(ps) == 0 {
				break
			}
			pv := ps[0]
			op := Op{K: "ans", S: pv.P.Subject, Q: pv.P.Query, A: actorEnc(pv.Actor), N: pv.Ord, O: "ok"}
			if strings.HasPrefix(pv.P.Subject, "call.") {
				switch kind {
				case "null":
					op.O, op.P = "result", "null"
				case "resource":
					op.O, op.P = "resource", "t.q?a=1"
				default:
					op.O, op.P = "result", result
				}
			}
			w.Exec(op)
		}
	}
}

// c16EventsWhileLoading: while the GET's tree is still loading, events for
// resources of the tree reach the gateway - custom events, a delete event, the
// removal of a reference. They are sent raw (the reference service's state does
// not change), and a GET holds its events back: the body must still be the
// expansion of what was fetched.
func c16EventsWhileLoading(t *rapid.T, w *World) {
	// answer a part of what is pending (oldest first), at least the root's get
	n := rapid.IntRange(1, 4).Draw(t, "evanswered")
	for i := 0; i < n; i++ {
		ps := w.PendingSorted()
		if len(ps) <= 1 {
			break
		}
		best := ps[0]
		for _, p := range ps {
			if p.P.Seq < best.P.Seq {
				best = p
			}
		}
		w.Exec(Op{K: "ans", S: best.P.Subject, Q: best.P.Query, A: actorEnc(best.Actor), N: best.Ord, O: "ok"})
	}
	if len(w.PendingSorted()) == 0 {
		return
	}
	var names []string
	for _, d := range w.Cfg.Resources {
		if d.QueryMap == nil && !d.Missing {
			names = append(names, d.Name)
		}
	}
	m := rapid.IntRange(1, 3).Draw(t, "evcount")
	for i := 0; i < m; i++ {
		name := rapid.SampledFrom(names).Draw(t, "evname")
		d := w.Svc.def(name)
		switch rapid.IntRange(0, 3).Draw(t, "evkind") {
		case 0:
			w.Exec(Op{K: "rawev", S: "event." + name + ".custom", P: `{"x":1}`, Key: "loading:custom"})
		case 1:
			w.Exec(Op{K: "rawev", S: "event." + name + ".delete", P: `null`, Key: "loading:delete"})
		default:
			// drop a reference (or any member) of the cached resource
			if d != nil && d.Type == "collection" {
				if len(d.Coll) > 0 {
					w.Exec(Op{K: "rawev", S: "event." + name + ".remove", P: fmt.Sprintf(`{"idx":%d}`, rapid.IntRange(0, len(d.Coll)-1).Draw(t, "evidx")), Key: "loading:remove"})
				}
			} else if d != nil {
				var keys []string
				for k := range d.Model {
					keys = append(keys, k)
				}
				sort.Strings(keys)
				if len(keys) > 0 {
					w.Exec(Op{K: "rawev", S: "event." + name + ".change", P: `{"values":{` + jstr(rapid.SampledFrom(keys).Draw(t, "evkey")) + `:{"action":"delete"}}}`, Key: "loading:change"})
				}
			}
		}
	}
}

// MonC16 judges every completed HTTP request of a history against the reference renderer.
type MonC16 struct{ baseMon }

func NewMonC16() *MonC16 { m := &MonC16{}; m.init("C16"); return m }

func (m *MonC16) OnEnd(w *World) []Violation {
	api := apiOf(w)
	flat := w.Cfg.APIEncoding == "jsonflat"
	byURL := map[string]*HTTPCall{}
	for _, h := range w.HTTP {
		if !h.Done || h.Rejected {
			if !h.Rejected && w.mq.PendingCount() == 0 {
				m.violate(w, "no_response", "%s %s did not complete although everything was answered", h.Method, h.URL)
			}
			continue
		}
		switch h.Method {
		case "GET":
			byURL[h.URL] = h
			if strings.Contains(h.URL, "rooterr=1") {
				// the pair with a failing root: only HEAD against GET is compared
				m.class("root_error_pair")
				continue
			}
			rid, _, ok := refHTTPTarget(h.URL, api, "GET")
			if !ok {
				continue
			}
			exp := refRender(w.Svc, rid, nil, flat, true)
			if em, ok := exp.(map[string]interface{}); ok && em["$error"] != nil {
				if h.Code != 404 {
					m.violate(w, "status", "GET %s of a missing resource: status %d, expected 404", h.URL, h.Code)
				}
				m.class("root_error")
				continue
			}
			if h.Code != 200 {
				m.violate(w, "status", "GET %s: status %d, expected 200 (body %s)", h.URL, h.Code, trunc(string(h.RespBody), 200))
				continue
			}
			if ct := h.RespHeader.Get("Content-Type"); ct != "application/json; charset=utf-8" {
				m.violate(w, "content_type", "GET %s: Content-Type %q", h.URL, ct)
			}
			got, err := parseJSON(h.RespBody)
			if err != nil {
				m.violate(w, "malformed_json", "GET %s (%s): body is not well-formed JSON: %s", h.URL, w.Cfg.APIEncoding, trunc(string(h.RespBody), 300))
				continue
			}
			var bad []string
			gotN := normaliseRendered(got, api, &bad)
			if len(bad) > 0 {
				m.violate(w, "href_roundtrip", "GET %s: href %q does not map back to a resource id", h.URL, bad[0])
			}
			expN := mustParse(jsonOf(exp))
			if !reflect.DeepEqual(mustParse(jsonOf(gotN)), expN) {
				m.violate(w, "rendering", "GET %s (%s): body %s differs from the reference expansion %s", h.URL, w.Cfg.APIEncoding, trunc(jsonOf(gotN), 600), trunc(jsonOf(expN), 600))
			}
			m.class("get_compared")
			if strings.Contains(jsonOf(expN), "$href") {
				m.nontriv = true
			}
		case "HEAD":
			if g := byURL[h.URL]; g != nil {
				if h.Code != g.Code || h.RespHeader.Get("Content-Type") != g.RespHeader.Get("Content-Type") {
					m.violate(w, "head_differs", "HEAD %s: status %d / Content-Type %q, GET gave %d / %q", h.URL, h.Code, h.RespHeader.Get("Content-Type"), g.Code, g.RespHeader.Get("Content-Type"))
				}
				m.class("head_compared")
			}
		case "POST":
			// the call answer of this request
			var ans []byte
			for _, e := range w.Log() {
				if e.Kind == "mq_complete" && e.CID == h.CID && strings.HasPrefix(e.Subject, "call.") {
					ans = e.Payload
				}
			}
			var r struct {
				Result   json.RawMessage `json:"result"`
				Resource *struct {
					RID string `json:"rid"`
				} `json:"resource"`
				Error json.RawMessage `json:"error"`
			}
			if ans == nil || json.Unmarshal(ans, &r) != nil || r.Error != nil {
				continue
			}
			switch {
			case r.Resource != nil:
				m.class("post_resource")
				loc := h.RespHeader.Get("Location")
				rid, _, ok := refHTTPTarget(loc, api, "GET")
				if h.Code != 200 || !ok || rid != r.Resource.RID {
					m.violate(w, "post_resource", "POST with resource response %s: status %d Location %q", r.Resource.RID, h.Code, loc)
				}
			case string(r.Result) == "null":
				m.class("post_null")
				if h.Code != 204 || len(h.RespBody) != 0 {
					m.violate(w, "post_null", "POST with null result: status %d body %q, expected 204 and no content", h.Code, h.RespBody)
				}
			case r.Result != nil:
				m.class("post_result")
				if h.Code != 200 || !sameJSONText(string(h.RespBody), string(r.Result)) {
					m.violate(w, "post_result", "POST result %s was returned as status %d body %q", r.Result, h.Code, h.RespBody)
				}
			}
		}
	}
	return m.viols
}

// ---------------------------------------------------------------------------
// C17: status mapping, meta limits, CORS

var errStatus = map[string]int{"system.notFound": 404, "system.methodNotFound": 404, "system.timeout": 404, "system.accessDenied": 401, "system.forbidden": 403,
	"system.methodNotAllowed": 405, "system.subjectTooLong": 414, "system.internalError": 500, "system.serviceUnavailable": 503}

func statusOf(code string) int {
	if s, ok := errStatus[code]; ok {
		return s
	}
	return 400
}

var protectedHeaders = []string{"Content-Type", "Access-Control-Allow-Origin", "Access-Control-Allow-Credentials", "Sec-Websocket-Extensions", "Sec-Websocket-Protocol", "Sec-WebSocket-Accept"}

func c17Config(t *rapid.T, p *Profile) WorldConfig {
	cfg := WorldConfig{Resources: []ResDef{{Name: "t.a", Type: "model", Model: map[string]Val{"x": Prim("1")}}}}
	switch rapid.IntRange(0, 4).Draw(t, "origins") {
	case 0:
		cfg.AllowOrigin = "*"
	case 1:
		cfg.AllowOrigin = "http://example.com"
	case 2:
		cfg.AllowOrigin = "https://App.Example.com:8080;http://localhost"
	case 3:
		cfg.AllowOrigin = "http://b.org;http://a.org;https://c.org"
	default:
		cfg.AllowOrigin = "https://kiosk.example.io;http://localhost:8080"
	}
	if rapid.IntRange(0, 2).Draw(t, "hauth") == 0 {
		cfg.HeaderAuth = "auth.t.login"
	}
	if rapid.IntRange(0, 3).Draw(t, "wsauth") == 0 {
		cfg.WSHeaderAuth = "auth.t.wslogin"
	}
	if rapid.Bool().Draw(t, "mapping") {
		cfg.PUTMethod = "put"
		cfg.DELETEMethod = "delete"
		cfg.PATCHMethod = "patch"
	}
	return cfg
}

func lowerASCII(s string) string {
	b := []byte(s)
	for i, c := range b {
		if c >= 'A' && c <= 'Z' {
			b[i] = c + 32
		}
	}
	return string(b)
}

func originAllowed(list string, origin string, has bool) bool {
	if list == "*" || list == "" || !has || origin == "null" {
		return true
	}
	for _, o := range strings.Split(list, ";") {
		if lowerASCII(o) == lowerASCII(origin) {
			return true
		}
	}
	return false
}

type metaSpec struct {
	Status *int
	Header map[string][]string
	JSON   string
}

func genMeta(t *rapid.T, label string) *metaSpec {
	if rapid.IntRange(0, 2).Draw(t, label+"has") == 0 {
		return nil
	}
	ms := &metaSpec{Header: map[string][]string{}}
	parts := []string{}
	if rapid.IntRange(0, 2).Draw(t, label+"st") == 0 {
		s := rapid.SampledFrom([]int{200, 299, 300, 302, 304, 400, 401, 404, 418, 500, 503, 599, 600, 0, -1, 100, 1000}).Draw(t, label+"status")
		ms.Status = &s
		parts = append(parts, fmt.Sprintf(`"status":%d`, s))
	}
	n := rapid.IntRange(0, 3).Draw(t, label+"nh")
	var hs []string
	for i := 0; i < n; i++ {
		k := rapid.SampledFrom([]string{"Set-Cookie", "set-cookie", "SET-COOKIE", "X-Test", "x-test", "Content-Type", "content-type", "CONTENT-TYPE", "Access-Control-Allow-Origin", "access-control-allow-origin",
			"Access-Control-Allow-Credentials", "Sec-WebSocket-Protocol", "sec-websocket-extensions", "Location", "Cache-Control", "Vary"}).Draw(t, label+"hk")
		if _, dup := ms.Header[k]; dup {
			continue
		}
		nv := rapid.IntRange(1, 2).Draw(t, label+"nv")
		var vals []string
		for j := 0; j < nv; j++ {
			vals = append(vals, rapid.SampledFrom([]string{"a=1", "b=2; Path=/", "text/evil", "http://evil.org", "x", "/other"}).Draw(t, label+"hv"))
		}
		ms.Header[k] = vals
		vb, _ := json.Marshal(vals)
		hs = append(hs, jstr(k)+":"+string(vb))
	}
	if len(hs) > 0 {
		parts = append(parts, `"header":{`+strings.Join(hs, ",")+`}`)
	}
	ms.JSON = "{" + strings.Join(parts, ",") + "}"
	return ms
}

func (ms *metaSpec) direct() bool {
	return ms != nil && ms.Status != nil && *ms.Status >= 300 && *ms.Status < 600
}

func c17Scenario(t *rapid.T, w *World, p *Profile) {
	m := scnMon(w)
	api := apiOf(w)
	n := rapid.IntRange(1, 4).Draw(t, "nreq")
	for i := 0; i < n; i++ {
		if rapid.IntRange(0, 3).Draw(t, "ws") == 0 {
			c17WebSocket(t, w)
			continue
		}
		c17Request(t, w, m, api, i+1)
		if w.Failed != "" || w.Deadlock != "" {
			return
		}
	}
}

func c17Origin(t *rapid.T, w *World) (string, bool) {
	if rapid.IntRange(0, 3).Draw(t, "hasorigin") == 0 {
		return "", false
	}
	listed := strings.Split(w.Cfg.AllowOrigin, ";")
	base := rapid.SampledFrom(listed).Draw(t, "obase")
	origin := ""
	switch rapid.IntRange(0, 11).Draw(t, "ovar") {
	case 0:
		origin = base
	case 1:
		origin = strings.ToUpper(base)
	case 2:
		origin = lowerASCII(base)
	case 3:
		origin = base + "x"
	case 4:
		if len(base) > 1 {
			origin = base[:len(base)-1]
		}
	case 5:
		origin = "null"
	case 6:
		origin = "http://evil.org"
	case 7:
		origin = strings.Replace(base, "e", "é", 1)
	case 8:
		origin = strings.Replace(base, "http", "HTTP", 1)
	case 9, 10:
		// a non-ASCII code point that Unicode case mapping or folding sends to an
		// ASCII letter of the listed origin: equal only under a non-ASCII comparison
		conf := map[byte][]string{'i': {"\u0130"}, 'I': {"\u0130", "\u0131"}, 'k': {"\u212a"}, 'K': {"\u212a"}, 's': {"\u017f"}, 'S': {"\u017f"}}
		var pos []int
		for i := 0; i < len(base); i++ {
			if conf[base[i]] != nil {
				pos = append(pos, i)
			}
		}
		if len(pos) > 0 {
			i := pos[rapid.IntRange(0, len(pos)-1).Draw(t, "cpos")]
			origin = base[:i] + rapid.SampledFrom(conf[base[i]]).Draw(t, "conf") + base[i+1:]
		}
	default:
		// flip the case of one ASCII letter (still allowed), or change one byte (not)
		if len(base) > 0 {
			i := rapid.IntRange(0, len(base)-1).Draw(t, "fpos")
			b := []byte(base)
			if rapid.Bool().Draw(t, "flip") && ((b[i]|0x20) >= 'a' && (b[i]|0x20) <= 'z') {
				b[i] ^= 0x20
			} else {
				b[i] = "abz.:/0-_"[rapid.IntRange(0, 8).Draw(t, "fbyte")]
			}
			origin = string(b)
		}
	}
	if origin == "" || origin == "*" {
		origin = "http://evil.org"
	}
	return origin, true
}

// c17WebSocket dials a WebSocket with a drawn Origin; a wsHeaderAuth request is answered with a drawn meta.
func c17WebSocket(t *rapid.T, w *World) {
	hdr := map[string]string{}
	if o, ok := c17Origin(t, w); ok {
		hdr["Origin"] = o
	}
	w.Exec(Op{K: "connect", C: len(w.Clients), H: hdr})
	for _, pv := range w.PendingSorted() {
		if strings.HasPrefix(pv.P.Subject, "auth.") {
			ms := genMeta(t, "wsmeta")
			metaPart := ""
			if ms != nil {
				metaPart = `,"meta":` + ms.JSON
			}
			body := `{"result":null` + metaPart + `}`
			if rapid.IntRange(0, 4).Draw(t, "wserr") == 0 {
				body = `{"error":{"code":"system.accessDenied","message":"E"}` + metaPart + `}`
			}
			w.Exec(Op{K: "ans", S: pv.P.Subject, Q: pv.P.Query, A: actorEnc(pv.Actor), N: pv.Ord, O: "raw", P: body})
		}
	}
}

func c17Request(t *rapid.T, w *World, m *MonScn, api string, id int) {
	method := rapid.SampledFrom([]string{"GET", "GET", "POST", "POST", "OPTIONS", "PUT", "DELETE", "PATCH", "HEAD"}).Draw(t, "method")
	url := api + "t/a"
	if method == "POST" {
		url += "/set"
	}
	hdr := map[string]string{}
	if o, ok := c17Origin(t, w); ok {
		hdr["Origin"] = o
	}
	if method == "OPTIONS" && rapid.Bool().Draw(t, "acrh") {
		hdr["Access-Control-Request-Headers"] = "X-Foo, Content-Type"
	}
	h := httpDo(w, id, method, url, hdr, "")
	if h == nil || h.Rejected {
		return
	}
	for step := 0; step < 8; step++ {
		ps := w.PendingSorted()
		if len(ps) == 0 {
			break
		}
		pv := ps[0]
		kind := pv.P.Subject[:strings.IndexByte(pv.P.Subject, '.')]
		ms := (*metaSpec)(nil)
		if kind != "get" {
			ms = genMeta(t, "meta")
		}
		op := Op{K: "ans", S: pv.P.Subject, Q: pv.P.Query, A: actorEnc(pv.Actor), N: pv.Ord, O: "raw"}
		metaPart := ""
		if ms != nil {
			metaPart = `,"meta":` + ms.JSON
		}
		errCode := ""
		if rapid.IntRange(0, 3).Draw(t, "err") == 0 {
			errCode = rapid.SampledFrom([]string{"system.notFound", "system.methodNotFound", "system.timeout", "system.accessDenied", "system.forbidden", "system.methodNotAllowed", "system.subjectTooLong",
				"system.internalError", "system.serviceUnavailable", "system.invalidParams", "custom.error", "system.badRequest", "system.notImplemented"}).Draw(t, "errcode")
		}
		switch {
		case errCode != "" && kind == "get":
			op.P = `{"error":{"code":` + jstr(errCode) + `,"message":"E"}}`
		case errCode != "":
			op.P = `{"error":{"code":` + jstr(errCode) + `,"message":"E"}` + metaPart + `}`
		case kind == "access":
			op.P = `{"result":{"get":true,"call":"*"}` + metaPart + `}`
		case kind == "get":
			op.P = `{"result":{"model":{"x":1}}}`
		case kind == "auth":
			op.P = `{"result":null` + metaPart + `}`
		default:
			op.P = `{"result":{"ok":true}` + metaPart + `}`
		}
		w.Exec(op)
		if w.Failed != "" || w.Deadlock != "" {
			return
		}
	}
	answerAllOK(w)
}

// MonC17 derives, for every completed HTTP request, the service requests made
// on its behalf and their answers from the boundary log, and judges status,
// headers and CORS handling by the rules of the statement.
type MonC17 struct{ baseMon }

func NewMonC17() *MonC17 { m := &MonC17{}; m.init("C17"); return m }

type svcAnswer struct {
	kind    string
	reqT    int
	ansT    int
	errCode string
	isErr   bool
	status  *int
	header  map[string][]string
	hasMeta bool
}

func (a *svcAnswer) direct() bool { return a.status != nil && *a.status >= 300 && *a.status < 600 }

func (m *MonC17) OnEnd(w *World) []Violation {
	log := w.Log()
	m.judgeWebSockets(w)
	for _, h := range w.HTTP {
		if h.Rejected || !strings.HasPrefix(h.URL, apiOf(w)) {
			continue
		}
		method, url := h.Method, h.URL
		origin, hasOrigin := h.Header["Origin"]
		allowed := originAllowed(w.Cfg.AllowOrigin, origin, hasOrigin)
		mapped := method == "PUT" || method == "DELETE" || method == "PATCH"
		// service requests on behalf of this request
		var answers []*svcAnswer
		reqIdx := map[int]*svcAnswer{}
		nreq := 0
		for i := range log {
			e := &log[i]
			if e.T < h.StartT {
				continue
			}
			if e.Kind == "mq_req" && (e.CID == h.CID && h.CID != "" || (strings.HasPrefix(e.Subject, "get.") && h.DoneT == 0 || strings.HasPrefix(e.Subject, "get.") && e.T < h.DoneT)) {
				if strings.HasPrefix(e.Subject, "get.") && e.CID == "" && !(h.Method == "GET" || h.Method == "HEAD") {
					continue
				}
				nreq++
				a := &svcAnswer{kind: e.Subject[:strings.IndexByte(e.Subject, '.')], reqT: e.T}
				reqIdx[e.Req] = a
				answers = append(answers, a)
			}
			if e.Kind == "mq_complete" {
				if a, ok := reqIdx[e.Req]; ok {
					a.ansT = e.T
					var r struct {
						Error *struct {
							Code string `json:"code"`
						} `json:"error"`
						Meta *struct {
							Status *int                `json:"status"`
							Header map[string][]string `json:"header"`
						} `json:"meta"`
					}
					if e.Err != "" {
						a.isErr = true
						a.errCode = "system.timeout"
					} else if json.Unmarshal(e.Payload, &r) == nil {
						if r.Error != nil {
							a.isErr, a.errCode = true, r.Error.Code
						}
						if r.Meta != nil && a.kind != "get" {
							a.hasMeta = true
							a.status, a.header = r.Meta.Status, r.Meta.Header
						}
					}
				}
			}
		}
		near := hasOrigin && !allowed && origin != "http://evil.org"
		if near {
			m.nontriv = true
			m.class("origin_near_miss")
		}
		if method == "OPTIONS" {
			m.class("options")
			if !h.Done || h.Code != 200 || nreq > 0 {
				m.violate(w, "options", "OPTIONS %s: done=%v status %d, %d service requests; expected 200 and no service request", url, h.Done, h.Code, nreq)
			}
			acao := h.RespHeader.Get("Access-Control-Allow-Origin")
			if w.Cfg.AllowOrigin == "*" {
				if acao != "*" {
					m.violate(w, "options_acao", "OPTIONS with allowOrigin *: Access-Control-Allow-Origin %q", acao)
				}
			} else if hasOrigin && origin != "null" {
				listed := strings.Split(w.Cfg.AllowOrigin, ";")
				for i := range listed {
					listed[i] = lowerASCII(listed[i])
				}
				sort.Strings(listed)
				want := listed[0]
				if allowed {
					want = origin
				}
				if acao != want {
					m.violate(w, "options_acao", "OPTIONS Origin %q (allowed=%v): Access-Control-Allow-Origin %q, expected %q", origin, allowed, acao, want)
				}
			}
			continue
		}
		if !allowed {
			m.class("origin_refused")
			if !h.Done || h.Code != 403 || nreq > 0 {
				m.violate(w, "origin_not_refused", "%s %s with Origin %q not in allow-list %q: done=%v status %d, %d service requests; expected 403 before any service request", method, url, origin, w.Cfg.AllowOrigin, h.Done, h.Code, nreq)
			}
			continue
		}
		if mapped && w.Cfg.PUTMethod == "" {
			if !h.Done || h.Code != 405 {
				m.violate(w, "unmapped_method", "%s without mapping: status %d, expected 405", method, h.Code)
			}
			continue
		}
		if !h.Done {
			if w.mq.PendingCount() == 0 {
				m.violate(w, "no_response", "%s %s did not complete although everything was answered", method, url)
			}
			continue
		}
		m.class("http_completed")
		sort.SliceStable(answers, func(i, j int) bool { return answers[i].ansT < answers[j].ansT })
		// the first direct status in auth -> access -> call order ends the request
		var direct *svcAnswer
		var used []*svcAnswer
		finalErr := ""
		for _, a := range answers {
			if a.ansT == 0 || a.ansT > h.DoneT {
				continue
			}
			used = append(used, a)
			if a.hasMeta && (strings.Contains(strings.ToLower(fmt.Sprint(a.header)), "content-type") || strings.Contains(strings.ToLower(fmt.Sprint(a.header)), "access-control") || strings.Contains(strings.ToLower(fmt.Sprint(a.header)), "sec-websocket")) {
				m.nontriv = true
				m.class("meta_with_protected_header")
			}
			if a.direct() && direct == nil {
				direct = a
				break
			}
			if a.isErr && a.kind != "auth" && finalErr == "" {
				finalErr = a.errCode
				break
			}
		}
		if direct != nil {
			// no service request may be made after the answer carrying a direct status
			for _, a := range answers {
				if a.reqT > direct.ansT {
					m.violate(w, "request_after_direct_status", "%s %s: meta status %d on the %s answer should end the request, but a %s request was made afterwards", method, url, *direct.status, direct.kind, a.kind)
				}
			}
		}
		body := string(h.RespBody)
		bodyCode := ""
		if v, err := parseJSON(h.RespBody); err == nil {
			if mm := asMap(v); mm != nil {
				bodyCode, _ = mm["code"].(string)
			}
		}
		switch {
		case direct != nil:
			m.class("direct_status")
			if h.Code != *direct.status {
				m.violate(w, "meta_status_not_honoured", "%s %s: meta status %d on the %s answer, response status %d", method, url, *direct.status, direct.kind, h.Code)
			}
		case finalErr != "":
			if bodyCode == "" && method != "HEAD" {
				m.violate(w, "error_body", "%s %s: the service error %q produced status %d with body %q", method, url, finalErr, h.Code, trunc(body, 100))
			}
			wantBody := finalErr
			if mapped && finalErr == "system.methodNotFound" {
				wantBody = "system.methodNotAllowed"
			}
			if bodyCode != "" {
				m.class("error_status_checked")
				if bodyCode != wantBody {
					m.violate(w, "error_code_changed", "%s %s: the service answered %q but the body carries %q", method, url, finalErr, bodyCode)
				}
				if h.Code != statusOf(bodyCode) {
					m.violate(w, "error_status", "%s %s: error code %q in the body but status %d, expected %d", method, url, bodyCode, h.Code, statusOf(bodyCode))
				}
			} else if h.Code != statusOf(wantBody) {
				m.violate(w, "error_status", "%s %s: service error %q but status %d, expected %d", method, url, finalErr, h.Code, statusOf(wantBody))
			}
		default:
			if h.Code != 200 && h.Code != 204 {
				m.violate(w, "status", "%s %s: status %d for a successful request (body %s)", method, url, h.Code, trunc(body, 100))
			}
		}
		// headers: protected ones follow the configuration, Set-Cookie accumulates
		if ct := h.RespHeader.Get("Content-Type"); ct != "" && ct != "application/json; charset=utf-8" {
			m.violate(w, "content_type_replaced", "%s %s: Content-Type %q", method, url, ct)
		}
		wantACAO := ""
		if w.Cfg.AllowOrigin == "*" || w.Cfg.AllowOrigin == "" {
			wantACAO = "*"
		} else if hasOrigin && origin != "null" {
			wantACAO = origin
		}
		if acao := h.RespHeader.Get("Access-Control-Allow-Origin"); acao != wantACAO {
			m.violate(w, "acao_replaced", "%s %s Origin %q: Access-Control-Allow-Origin %q, the configuration implies %q", method, url, origin, acao, wantACAO)
		}
		wantCred := ""
		if w.Cfg.HeaderAuth != "" {
			wantCred = "true"
		}
		if got := h.RespHeader.Get("Access-Control-Allow-Credentials"); got != wantCred {
			m.violate(w, "credentials_replaced", "%s %s: Access-Control-Allow-Credentials %q, the configuration implies %q", method, url, got, wantCred)
		}
		for _, ph := range protectedHeaders[3:] {
			if v := h.RespHeader[textproto.CanonicalMIMEHeaderKey(ph)]; len(v) > 0 {
				m.violate(w, "websocket_header_set", "%s %s: header %s=%v taken from a meta object", method, url, ph, v)
			}
		}
		var wantCookies []string
		for _, a := range used {
			for k, vals := range a.header {
				if textproto.CanonicalMIMEHeaderKey(k) == "Set-Cookie" {
					wantCookies = append(wantCookies, vals...)
				}
			}
		}
		gc := append([]string(nil), h.RespHeader["Set-Cookie"]...)
		sort.Strings(gc)
		sort.Strings(wantCookies)
		if !reflect.DeepEqual(gc, wantCookies) && !(len(gc) == 0 && len(wantCookies) == 0) {
			m.violate(w, "set_cookie", "%s %s: Set-Cookie values %v, the metas supplied %v", method, url, gc, wantCookies)
		}
		if len(wantCookies) > 1 {
			m.class("multiple_cookies")
		}
	}
	return m.viols
}

func (m *MonC17) judgeWebSockets(w *World) {
	log := w.Log()
	for _, c := range w.Clients {
		origin, hasOrigin := c.Headers["Origin"]
		allowed := originAllowed(w.Cfg.AllowOrigin, origin, hasOrigin)
		var dial *LogEntry
		for i := range log {
			if log[i].Kind == "dial" && log[i].Conn == c.Idx {
				dial = &log[i]
			}
		}
		if dial == nil {
			continue
		}
		m.class("websocket_dial")
		var auth *svcAnswer
		nreq := 0
		reqs := map[int]bool{}
		for i := range log {
			e := &log[i]
			if e.Kind == "mq_req" && e.CID == c.CID && c.CID != "" && e.T < dial.T {
				nreq++
				reqs[e.Req] = true
			}
			if e.Kind == "mq_complete" && reqs[e.Req] && strings.HasPrefix(e.Subject, "auth.") && e.T < dial.T {
				a := &svcAnswer{kind: "auth", ansT: e.T}
				var r struct {
					Meta *struct {
						Status *int                `json:"status"`
						Header map[string][]string `json:"header"`
					} `json:"meta"`
				}
				if json.Unmarshal(e.Payload, &r) == nil && r.Meta != nil {
					a.hasMeta, a.status, a.header = true, r.Meta.Status, r.Meta.Header
				}
				auth = a
			}
		}
		if hasOrigin && !allowed && origin != "http://evil.org" {
			m.nontriv = true
			m.class("ws_origin_near_miss")
		}
		if !allowed {
			if dial.Err == "" || dial.Code != 403 || nreq > 0 {
				m.violate(w, "ws_origin_not_refused", "WebSocket upgrade with Origin %q not in allow-list %q: error=%q status %d, %d service requests; expected 403 before any service request", origin, w.Cfg.AllowOrigin, dial.Err, dial.Code, nreq)
			}
			continue
		}
		if auth != nil && auth.direct() {
			if dial.Err == "" || dial.Code != *auth.status {
				m.violate(w, "ws_meta_status_not_honoured", "WebSocket upgrade: wsHeaderAuth answered with meta status %d, handshake result error=%q status %d", *auth.status, dial.Err, dial.Code)
			}
			continue
		}
		if dial.Err != "" {
			if w.Cfg.WSHeaderAuth == "" || auth != nil {
				m.violate(w, "ws_handshake_failed", "WebSocket upgrade with allowed origin %q failed: %s (status %d)", origin, dial.Err, dial.Code)
			}
			continue
		}
		// the handshake validated (the dialer checks Sec-WebSocket-Accept); meta headers other than the protected ones are present
		if auth != nil && auth.hasMeta {
			var want []string
			for k, vals := range auth.header {
				if textproto.CanonicalMIMEHeaderKey(k) == "Set-Cookie" {
					want = append(want, vals...)
				}
			}
			got := append([]string(nil), dial.Header["Set-Cookie"]...)
			sort.Strings(got)
			sort.Strings(want)
			if !reflect.DeepEqual(got, want) && !(len(got) == 0 && len(want) == 0) {
				m.violate(w, "ws_set_cookie", "WebSocket upgrade: Set-Cookie values %v, the wsHeaderAuth meta supplied %v", got, want)
			}
			for _, ph := range []string{"Sec-Websocket-Protocol", "Sec-Websocket-Extensions", "Content-Type", "Access-Control-Allow-Origin", "Access-Control-Allow-Credentials"} {
				for k, vals := range auth.header {
					if textproto.CanonicalMIMEHeaderKey(k) == ph {
						for _, v := range vals {
							for _, gv := range dial.Header[ph] {
								if gv == v {
									m.violate(w, "ws_protected_header", "WebSocket upgrade: protected header %s=%q was taken from the wsHeaderAuth meta", ph, v)
								}
							}
						}
						m.nontriv = true
					}
				}
			}
			m.class("ws_meta_headers_checked")
		}
	}
}
