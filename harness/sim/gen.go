package sim

import (
	"fmt"
	"sort"
	"strings"

	"pgregory.net/rapid"
)

// Profile steers the general history generator (weights of op kinds and
// outcome distributions). Every random choice goes through rapid.
type Profile struct {
	Graph    bool // drawn resource graphs (graphConfig) instead of the fixed default resources
	Dense    bool // graphConfig draws mostly references: many paths to the same child
	Acyclic  bool // graphConfig draws forward references only (DAGs: diamonds and shared children, no cycles)
	Name     string
	MinOps   int
	MaxOps   int
	MaxConns int
	Versions []string // version handshakes to draw from ("" = none)

	W map[string]int // op weights, see Gen.step

	// outcome weights
	AccessOut map[string]int // grant, getonly, callonly, deny, denyget, err:<code>, timeout, noresult, noresp
	GetOut    map[string]int // ok, notfound, err, timeout
	CallOut   map[string]int // result, resource, err, timeout, null
	QueryOut  map[string]int // events, full, err, notfound, timeout

	RIDs           []string // client-facing rids to use (default: derived from config)
	Methods        []string // call methods
	CallLists      []string // access "call" values
	UnsubParams    []string // extra unsubscribe params
	Tokens         []string
	Patterns       []string // reset patterns (default derived)
	BurstMax       int      // max length of subscribe bursts
	Par            bool     // generate race groups
	NoVersionFirst bool
	// Protocol: the clients behave like protocol-following clients: they only
	// unsubscribe what has been confirmed to them and send no ill-formed requests.
	Protocol bool
	Throttle bool // draw reference/reset throttle settings
	// Prologue: percentage of cases that start with connections that subscribe to
	// a few resources with everything answered successfully (and a token set), so
	// that the random phase starts from established subscriptions.
	Prologue int
}

// Gen generates and executes ops statefully.
type Gen struct {
	t *rapid.T
	w *World
	p *Profile

	rids     []string
	names    []string // service-side names for mutations (non-query, non-cid)
	qnames   []string // query resource names
	allNames []string
	http     int
	tidSeq   int
	Excluded map[string]int // known-finding triggers avoided by construction
}

func NewGen(t *rapid.T, w *World, p *Profile) *Gen {
	g := &Gen{t: t, w: w, p: p, Excluded: map[string]int{}}
	for _, d := range w.Cfg.Resources {
		g.allNames = append(g.allNames, d.Name)
		if d.QueryMap != nil {
			g.qnames = append(g.qnames, d.Name)
			raws := make([]string, 0, len(d.QueryMap))
			for raw := range d.QueryMap {
				raws = append(raws, raw)
			}
			sort.Strings(raws)
			for _, raw := range raws {
				if raw == "" {
					g.rids = append(g.rids, d.Name)
				} else {
					g.rids = append(g.rids, d.Name+"?"+raw)
				}
			}
		} else {
			g.rids = append(g.rids, d.Name)
			if !d.PerCID {
				g.names = append(g.names, d.Name)
			}
		}
	}
	if len(p.RIDs) > 0 {
		g.rids = p.RIDs
	}
	return g
}

type choice struct {
	w int
	f func()
}

func (g *Gen) pick(label string, cs []choice) bool {
	total := 0
	for _, c := range cs {
		total += c.w
	}
	if total == 0 {
		return false
	}
	n := rapid.IntRange(0, total-1).Draw(g.t, label)
	for _, c := range cs {
		if n < c.w {
			c.f()
			return true
		}
		n -= c.w
	}
	return false
}

func (g *Gen) weighted(label string, m map[string]int, def string) string {
	if len(m) == 0 {
		return def
	}
	keys := make([]string, 0, len(m))
	total := 0
	for k, w := range m {
		if w > 0 {
			keys = append(keys, k)
			total += w
		}
	}
	if total == 0 {
		return def
	}
	sort.Strings(keys)
	n := rapid.IntRange(0, total-1).Draw(g.t, label)
	for _, k := range keys {
		if n < m[k] {
			return k
		}
		n -= m[k]
	}
	return def
}

func (g *Gen) sample(label string, xs []string) string {
	return xs[rapid.IntRange(0, len(xs)-1).Draw(g.t, label)]
}

func (g *Gen) openConns() []*Client {
	var r []*Client
	for _, c := range g.w.Clients {
		if c.Dialed && !c.Closed && !c.EOF {
			r = append(r, c)
		}
	}
	return r
}

func (g *Gen) wt(k string) int { return g.p.W[k] }

// PendingView is one pending request in canonical order.
type PendingView struct {
	P     *PendingReq
	Actor int
	Ord   int
}

// PendingSorted returns the pending requests canonically sorted with ordinals.
func (w *World) PendingSorted() []PendingView {
	ps := w.mq.Pending()
	vs := make([]PendingView, 0, len(ps))
	count := map[string]int{}
	for _, p := range ps {
		a := w.ActorOf(p.CID)
		k := fmt.Sprintf("%s|%s|%d", p.Subject, p.Query, a)
		vs = append(vs, PendingView{P: p, Actor: a, Ord: count[k]})
		count[k]++
	}
	sort.SliceStable(vs, func(i, j int) bool {
		if vs[i].P.Subject != vs[j].P.Subject {
			return vs[i].P.Subject < vs[j].P.Subject
		}
		if vs[i].P.Query != vs[j].P.Query {
			return vs[i].P.Query < vs[j].P.Query
		}
		if vs[i].Actor != vs[j].Actor {
			return vs[i].Actor < vs[j].Actor
		}
		return vs[i].Ord < vs[j].Ord
	})
	return vs
}

func (g *Gen) genVal() Val {
	k := rapid.IntRange(0, 99).Draw(g.t, "valkind")
	switch {
	case k < 35:
		return g.w.Svc.Fresh()
	case k < 50:
		return Prim(g.sample("smallprim", []string{"1", "2", `"x"`, "true", "null"}))
	case k < 55:
		return Prim(g.sample("escprim", []string{`"a\"b"`, `"é\u0000"`, `"<>&"`, `""`}))
	case k < 80:
		return Ref(g.sample("refrid", g.rids))
	case k < 88:
		return Soft(g.sample("softrid", g.rids))
	default:
		return Data(g.sample("data", []string{`{"a":1}`, `[1,2]`, `{"rid":"t.a"}`, `[]`}))
	}
}

// Step generates and executes one op. Returns false if nothing was enabled.
func (g *Gen) Step() bool {
	w := g.w
	conns := g.openConns()
	pend := w.PendingSorted()
	var cs []choice

	if len(w.Clients) < g.p.MaxConns {
		cs = append(cs, choice{g.wt("connect") + boolInt(len(conns) == 0)*50, g.opConnect})
	}
	if len(conns) > 0 {
		cs = append(cs,
			choice{g.wt("subscribe"), func() { g.opRequest(conns, "subscribe") }},
			choice{g.wt("get"), func() { g.opRequest(conns, "get") }},
			choice{g.wt("unsubscribe"), func() { g.opUnsubscribe(conns) }},
			choice{g.wt("call"), func() { g.opCall(conns, "call") }},
			choice{g.wt("auth"), func() { g.opCall(conns, "auth") }},
			choice{g.wt("new"), func() { g.opRequest(conns, "new") }},
			choice{g.wt("close"), func() { g.opClose(conns) }},
			choice{g.wt("token"), func() { g.opToken(conns) }},
			choice{g.wt("burst"), func() { g.opBurst(conns) }},
			choice{g.wt("limitburst"), func() { g.opLimitBurst(conns) }},
			choice{g.wt("badreq"), func() { g.opBadReq(conns) }},
			choice{g.wt("trigburst"), func() { g.opTrigBurst(conns) }},
			choice{g.wt("deleteburst"), func() { g.opDeleteBurst(conns) }},
			choice{g.wt("refburst"), func() { g.opRefBurst(conns) }},
			choice{g.wt("recheckburst"), func() { g.opRecheckBurst(conns) }},
			choice{g.wt("getoverlap"), func() { g.opGetOverlapBurst(conns) }},
			choice{g.wt("stallburst"), func() { g.opStallBurst(conns) }},
			choice{g.wt("throtburst"), func() { g.opThrottleBurst(conns) }},
			choice{g.wt("gcburst"), func() { g.opGCBurst(conns) }},
			choice{g.wt("aliasburst") * boolInt(len(g.qnames) > 0), func() { g.opAliasBurst(conns) }},
			choice{g.wt("qburst") * boolInt(len(g.qnames) > 0), func() { g.opQBurst() }},
			choice{g.wt("resetfail"), func() { g.opResetFailBurst() }},
			choice{g.wt("httpburst"), func() { g.opHTTPBurst() }},
			choice{g.wt("hostilereq"), func() { g.opHostileReq(conns) }},
		)
	}
	if len(pend) > 0 {
		n := len(pend)
		if n > 8 {
			n = 8
		}
		cs = append(cs, choice{g.wt("answer") * (1 + n), func() { g.opAnswer(pend) }})
	}
	if len(g.names) > 0 {
		cs = append(cs,
			choice{g.wt("mutate"), func() { g.opMutate("mut") }},
			choice{g.wt("silent"), func() { g.opMutate("silent") }},
			choice{g.wt("custom"), g.opCustom},
			choice{g.wt("delete"), g.opDelete},
			choice{g.wt("reaccess"), g.opReaccess},
		)
	}
	if len(g.qnames) > 0 {
		cs = append(cs,
			choice{g.wt("qmutate"), g.opQMutate},
			choice{g.wt("qevent"), g.opQEvent},
		)
	}
	cs = append(cs,
		choice{g.wt("sysreset"), g.opSysReset},
		choice{g.wt("tokreset"), g.opTokReset},
		choice{g.wt("httpget"), func() { g.opHTTP("GET") }},
		choice{g.wt("httppost"), func() { g.opHTTP("POST") }},
		choice{g.wt("hostilehttp"), g.opHostileHTTP},
		choice{g.wt("inject"), func() { g.opInject(conns, pend) }},
		choice{g.wt("cidevent") * boolInt(len(conns) > 0), func() { g.opCIDEvent(conns) }},
		choice{g.wt("connevent") * boolInt(len(conns) > 0), func() { g.opConnEvent(conns) }},
		choice{g.wt("badanswer") * boolInt(len(pend) > 0), func() { g.opBadAnswer(pend) }},
		choice{g.wt("badevent"), g.opBadEvent},
		choice{g.wt("httptoken") * boolInt(len(pend) > 0), func() { g.opHTTPToken(pend) }},
		choice{g.wt("sleep") * boolInt(g.w.Cfg.UnsubDelayMs > 0), func() {
			g.w.Exec(Op{K: "sleep", N: g.w.Cfg.UnsubDelayMs/2 + rapid.IntRange(0, g.w.Cfg.UnsubDelayMs).Draw(g.t, "sleepms")})
		}},
	)
	return g.pick("op", cs)
}

func boolInt(b bool) int {
	if b {
		return 1
	}
	return 0
}

func (g *Gen) opConnect() {
	n := len(g.w.Clients)
	g.w.Exec(Op{K: "connect", C: n})
	if len(g.w.Clients) <= n {
		return
	}
	c := g.w.Clients[len(g.w.Clients)-1]
	if !c.Dialed {
		return
	}
	if len(g.p.Versions) > 0 {
		v := g.sample("version", g.p.Versions)
		if v != "" {
			id := c.NextID
			c.NextID++
			g.w.Exec(Op{K: "creq", C: c.Idx, ID: id, M: "version", P: `{"protocol":` + jstr(v) + `}`})
		}
	}
}

func (g *Gen) conn(conns []*Client) *Client {
	return conns[rapid.IntRange(0, len(conns)-1).Draw(g.t, "conn")]
}

func (g *Gen) nextID(c *Client) uint64 {
	id := c.NextID
	c.NextID++
	return id
}

func (g *Gen) opRequest(conns []*Client, action string) {
	c := g.conn(conns)
	rid := g.sample("rid", g.rids)
	g.w.Exec(Op{K: "creq", C: c.Idx, ID: g.nextID(c), M: action + "." + rid})
}

func (g *Gen) opUnsubscribe(conns []*Client) {
	c := g.conn(conns)
	if g.p.Protocol {
		var active []string
		for rid, n := range c.Ref.Direct {
			if n > 0 {
				active = append(active, rid)
			}
		}
		if len(active) == 0 {
			return
		}
		sort.Strings(active)
		rid := g.sample("rid", active)
		params := ""
		if d := c.Ref.Direct[rid]; d > 1 && rapid.IntRange(0, 2).Draw(g.t, "unsuball") == 0 {
			params = fmt.Sprintf(`{"count":%d}`, rapid.IntRange(1, d).Draw(g.t, "count"))
		}
		g.w.Exec(Op{K: "creq", C: c.Idx, ID: g.nextID(c), M: "unsubscribe." + rid, P: params})
		return
	}
	// prefer rids with activity on this connection
	cand := g.rids
	var active []string
	for rid, n := range c.Ref.Direct {
		if n > 0 {
			active = append(active, rid)
		}
	}
	for _, id := range c.Ref.Outstanding() {
		r := c.Ref.Reqs[id]
		if r.RID != "" {
			active = append(active, r.RID)
		}
	}
	sort.Strings(active)
	if len(active) > 0 && rapid.IntRange(0, 9).Draw(g.t, "unsubactive") < 7 {
		cand = active
	}
	rid := g.sample("rid", cand)
	params := ""
	k := rapid.IntRange(0, 19).Draw(g.t, "unsubparam")
	d := c.Ref.Direct[rid]
	switch {
	case k < 9:
	case k == 9:
		params = "null"
	case k == 10:
		params = "{}"
	case k == 11:
		params = `{"count":1}`
	case k == 12:
		params = `{"count":2}`
	case k == 13:
		params = fmt.Sprintf(`{"count":%d}`, d)
	case k == 14:
		params = fmt.Sprintf(`{"count":%d}`, d+1)
	case k == 15:
		params = g.sample("badcount", []string{`{"count":0}`, `{"count":-1}`, `{"count":"x"}`, `{"count":true}`, `{"count":256}`, `{"count":257}`,
			`{"count":18446744073709551615}`, `{"count":9223372036854775808}`, `{"count":9223372036854775807}`, `{"count":4294967296}`, `{"count":-9223372036854775808}`, `{"count":18446744073709551616}`, `{"count":1.0}`, `{"count":1e0}`})
	case k == 16 && len(g.p.UnsubParams) > 0:
		params = g.sample("xparams", g.p.UnsubParams)
	default:
	}
	g.w.Exec(Op{K: "creq", C: c.Idx, ID: g.nextID(c), M: "unsubscribe." + rid, P: params})
}

func (g *Gen) methods() []string {
	if len(g.p.Methods) > 0 {
		return g.p.Methods
	}
	return []string{"set", "get", "se", "sett", "new", "a"}
}

func (g *Gen) opCall(conns []*Client, action string) {
	c := g.conn(conns)
	rid := g.sample("rid", g.rids)
	m := g.sample("method", g.methods())
	params := ""
	if rapid.IntRange(0, 3).Draw(g.t, "hasparams") == 0 {
		params = g.sample("params", []string{`{"a":1}`, `null`, `[1]`, `"s"`, `5`})
	}
	g.w.Exec(Op{K: "creq", C: c.Idx, ID: g.nextID(c), M: action + "." + rid + "." + m, P: params})
}

func (g *Gen) opClose(conns []*Client) {
	c := g.conn(conns)
	g.w.Exec(Op{K: "close", C: c.Idx})
}

func (g *Gen) tokens() []string {
	if len(g.p.Tokens) > 0 {
		return g.p.Tokens
	}
	return []string{`{"u":1}`, `{"u":2}`, `"tok"`, `null`, `{"u":1}`}
}

func (g *Gen) opToken(conns []*Client) {
	c := g.conn(conns)
	tok := g.sample("token", g.tokens())
	tid := ""
	if rapid.IntRange(0, 2).Draw(g.t, "hastid") > 0 {
		tid = g.sample("tid", []string{"t1", "t2", "t3"})
	}
	op := Op{K: "token", C: c.Idx, P: tok, S: tid}
	// the ways of clearing a token: an explicit null is in the token list; an
	// event without the member, or the payload null, clears it just the same
	switch rapid.IntRange(0, 11).Draw(g.t, "tokenshape") {
	case 0:
		op.O, op.P = "nomember", "null"
	case 1:
		op.O, op.P, op.S = "nullpayload", "null", ""
	}
	g.w.Exec(op)
}

func (g *Gen) opBurst(conns []*Client) {
	c := g.conn(conns)
	rid := g.sample("rid", g.rids)
	max := g.p.BurstMax
	if max == 0 {
		max = 4
	}
	n := rapid.IntRange(2, max).Draw(g.t, "burstn")
	for i := 0; i < n; i++ {
		g.w.Exec(Op{K: "creq", C: c.Idx, ID: g.nextID(c), M: "subscribe." + rid})
	}
}

// opLimitBurst brings the direct subscription count of one resource to (or
// just below) the per-resource limit of 256 and then asks for a few more, by
// subscribe, get, or a call that may be answered with a resource response.
func (g *Gen) opLimitBurst(conns []*Client) {
	c := g.conn(conns)
	rid := g.sample("rid", g.rids)
	n := 256 - c.Ref.Direct[rid] - rapid.IntRange(0, 2).Draw(g.t, "lbshort")
	if n > 1 {
		id := g.nextID(c)
		g.w.Exec(Op{K: "creq", C: c.Idx, ID: id, M: "subscribe." + rid, N: n})
	} else if n == 1 {
		g.w.Exec(Op{K: "creq", C: c.Idx, ID: g.nextID(c), M: "subscribe." + rid})
	}
	extra := rapid.IntRange(1, 4).Draw(g.t, "lbextra")
	for i := 0; i < extra; i++ {
		m := g.sample("lbaction", []string{"subscribe.", "subscribe.", "get."}) + rid
		g.w.Exec(Op{K: "creq", C: c.Idx, ID: g.nextID(c), M: m})
	}
}

func (g *Gen) opBadReq(conns []*Client) {
	c := g.conn(conns)
	// a frame without an id (or with a null id) is no request: nothing answers it
	// and nothing is done on its behalf, whatever its method says
	if rapid.IntRange(0, 3).Draw(g.t, "noid") == 0 {
		rid := g.sample("rid", g.rids)
		if strings.Contains(rid, "{cid}") {
			rid = "t.a"
		}
		frame := g.sample("noidframe", []string{`{"method":"version"}`, `{"method":"subscribe.` + rid + `"}`, `{"id":null,"method":"get.` + rid + `"}`, `{"method":"unsubscribe.` + rid + `"}`,
			`{"method":"call.` + rid + `.set","params":{}}`, `{"id":null,"method":"subscribe.` + rid + `"}`, `{"method":"foo"}`, `{"id":null,"method":"version","params":{"protocol":"1.2.3"}}`, `{"method":"new.` + rid + `"}`, `{"method":"auth.` + rid + `.login"}`})
		g.w.Exec(Op{K: "craw", C: c.Idx, P: frame})
		return
	}
	m := g.sample("badmethod", []string{"", "subscribe", "subscribe.", "foo.t.a", "call.t.a", "call.t.a.", "subscribe.t..a", "subscribe..t.a", "get.t.a.", "subscribe.t.*", "subscribe.t.>", "call.t.a.b?c", "subscribe.t a", "unsubscribe.", "auth.t.a", "new.", "version.x", "subscribe.?q", "subscribe.t.a?"})
	g.w.Exec(Op{K: "creq", C: c.Idx, ID: g.nextID(c), M: m})
}

func (g *Gen) callLists() []string {
	if len(g.p.CallLists) > 0 {
		return g.p.CallLists
	}
	return []string{"*", "set", "set,get", "get,set", "", "sett", "se", ",set", "set,", "a,set,b", "*,x", "new"}
}

func (g *Gen) opAnswer(pend []PendingView) {
	pv := pend[rapid.IntRange(0, len(pend)-1).Draw(g.t, "pending")]
	op := Op{K: "ans", S: pv.P.Subject, Q: pv.P.Query, A: actorEnc(pv.Actor), N: pv.Ord}
	subj := pv.P.Subject
	switch {
	case strings.HasPrefix(subj, "access."):
		o := g.weighted("accessout", g.p.AccessOut, "grant")
		switch {
		case o == "grant":
			op.O, op.P = "ok", `{"get":true,"call":"*"}`
		case o == "getonly":
			op.O, op.P = "ok", `{"get":true}`
		case o == "calllist":
			op.O, op.P = "ok", `{"get":true,"call":`+jstr(g.sample("calllist", g.callLists()))+`}`
		case o == "callonly":
			op.O, op.P = "ok", `{"get":false,"call":`+jstr(g.sample("calllist", g.callLists()))+`}`
		case o == "deny":
			op.O, op.P = "ok", `{"get":false}`
		case o == "denied":
			op.O, op.P = "err", "system.accessDenied"
		case o == "err":
			op.O, op.P = "err", g.sample("errcode", []string{"system.notFound", "system.internalError", "custom.err", "system.timeout"})
		case o == "noresult":
			op.O, op.P = "raw", `{}`
		case o == "timeout":
			op.O = "timeout"
		case o == "noresp":
			op.O = "noresp"
		default:
			op.O, op.P = "ok", `{"get":true,"call":"*"}`
		}
	case strings.HasPrefix(subj, "get."):
		o := g.weighted("getout", g.p.GetOut, "ok")
		switch o {
		case "notfound":
			op.O, op.P = "err", "system.notFound"
		case "err":
			op.O, op.P = "err", g.sample("errcode", []string{"system.internalError", "custom.err", "system.accessDenied"})
		case "timeout":
			op.O = "timeout"
		case "noresp":
			op.O = "noresp"
		default:
			op.O = "ok"
		}
	case strings.HasPrefix(subj, "_EVQ."):
		o := g.weighted("queryout", g.p.QueryOut, "events")
		switch o {
		case "full":
			op.O, op.P = "ok", "full"
		case "err":
			op.O, op.P = "err", "system.internalError"
		case "notfound":
			op.O, op.P = "err", "system.notFound"
		case "timeout":
			op.O = "timeout"
		default:
			op.O = "ok"
		}
	default: // call, auth, custom auth subjects
		o := g.weighted("callout", g.p.CallOut, "result")
		switch o {
		case "resource":
			op.O, op.P = "resource", g.sample("resrid", g.rids)
		case "err":
			op.O, op.P = "err", g.sample("errcode", []string{"system.methodNotFound", "system.invalidParams", "custom.err", "system.notFound"})
		case "timeout":
			op.O = "timeout"
		case "null":
			op.O, op.P = "result", "null"
		case "both":
			// a result and a resource in one answer: the resource wins, one response
			op.O, op.P = "raw", `{"result":{"ok":true},"resource":{"rid":`+jstr(g.sample("resrid", g.rids))+`}}`
		case "empty":
			op.O, op.P = "raw", `{}`
		case "reserr":
			op.O, op.P = "raw", `{"resource":{"rid":`+jstr(g.sample("resrid", g.rids))+`},"error":{"code":"custom.err","message":"E"}}`
		default:
			op.O, op.P = "result", g.sample("result", []string{`{"ok":true}`, `5`, `"s"`, `[1,2]`, `{"rid":"t.a"}`})
		}
	}
	g.w.Exec(op)
}

func (g *Gen) opMutate(kind string) {
	name := g.sample("mname", g.names)
	g.mutate(kind, name, "")
}

func (g *Gen) mutate(kind, name, query string) {
	d := g.w.Svc.defFor(name, nil)
	if d == nil {
		return
	}
	v := g.w.Svc.variant(d, name, query)
	op := Op{K: kind, S: name, Q: query}
	if v.Type == 'm' {
		key := g.sample("key", []string{"a", "b", "c", "r", "s"})
		if _, has := v.Model[key]; has && rapid.IntRange(0, 3).Draw(g.t, "del") == 0 {
			op.O, op.Key = "del", key
		} else {
			val := g.genVal()
			op.O, op.Key, op.Val = "set", key, &val
		}
	} else {
		if len(v.Coll) > 0 && rapid.IntRange(0, 9).Draw(g.t, "rem") < 4 {
			op.O, op.N = "rem", rapid.IntRange(0, len(v.Coll)-1).Draw(g.t, "idx")
		} else {
			val := g.genVal()
			op.O, op.N, op.Val = "add", rapid.IntRange(0, len(v.Coll)).Draw(g.t, "idx"), &val
		}
	}
	g.w.Exec(op)
}

func (g *Gen) opQMutate() {
	name := g.sample("qname", g.qnames)
	d := g.w.Svc.def(name)
	norms := map[string]bool{}
	for _, n := range d.QueryMap {
		norms[n] = true
	}
	var ns []string
	for n := range norms {
		ns = append(ns, n)
	}
	sort.Strings(ns)
	g.mutate("silent", name, g.sample("norm", ns))
}

func (g *Gen) opQEvent() {
	g.w.Exec(Op{K: "qevent", S: g.sample("qname", g.qnames)})
}

func (g *Gen) opCustom() {
	name := g.sample("cname", g.names)
	g.w.Exec(Op{K: "custom", S: name, M: g.sample("evname", []string{"custom", "foo", "create"})})
}

func (g *Gen) opDelete() {
	g.w.Exec(Op{K: "delete", S: g.sample("dname", g.names)})
}

func (g *Gen) opReaccess() {
	g.w.Exec(Op{K: "reaccess", S: g.sample("rname", g.allNamesExpanded())})
}

func (g *Gen) allNamesExpanded() []string {
	var r []string
	for _, n := range g.allNames {
		if strings.Contains(n, "{cid}") {
			for _, cid := range g.w.CIDs() {
				r = append(r, strings.Replace(n, "{cid}", cid, -1))
			}
		} else {
			r = append(r, n)
		}
	}
	if len(r) == 0 {
		r = []string{"none"}
	}
	return r
}

func (g *Gen) patterns() []string {
	if len(g.p.Patterns) > 0 {
		return g.p.Patterns
	}
	ps := []string{">", "t.>", "t.*", "*.a", "t.a.>", "*", "x.>", "t..a", "t.*.>", ""}
	ps = append(ps, g.allNames...)
	return ps
}

func (g *Gen) patternList(label string) string {
	n := rapid.IntRange(0, 3).Draw(g.t, label+"n")
	var xs []string
	for i := 0; i < n; i++ {
		xs = append(xs, jstr(g.sample(label, g.patterns())))
	}
	return "[" + strings.Join(xs, ",") + "]"
}

func (g *Gen) opSysReset() {
	res := g.patternList("respat")
	acc := g.patternList("accpat")
	g.w.Exec(Op{K: "sysreset", P: `{"resources":` + res + `,"access":` + acc + `}`})
}

func (g *Gen) opTokReset() {
	n := rapid.IntRange(0, 3).Draw(g.t, "tidsn")
	var xs []string
	for i := 0; i < n; i++ {
		// the empty string addresses nobody: a connection whose token came without
		// a token id has none
		xs = append(xs, jstr(g.sample("tid", []string{"t1", "t2", "t3", "", "t1"})))
	}
	g.w.Exec(Op{K: "tokreset", P: `{"tids":[` + strings.Join(xs, ",") + `],"subject":"auth.t.renew"}`})
}

func ridToPath(rid string) (path, query string) {
	name := rid
	if i := strings.IndexByte(rid, '?'); i >= 0 {
		name, query = rid[:i], rid[i+1:]
	}
	return strings.Replace(name, ".", "/", -1), query
}

func (g *Gen) opHTTP(method string) {
	rid := g.sample("hrid", g.rids)
	if strings.Contains(rid, "{") || len(rid) > 500 {
		return
	}
	p, q := ridToPath(rid)
	api := g.w.Cfg.APIPath
	if api == "" {
		api = "/api/"
	}
	if !strings.HasSuffix(api, "/") {
		api += "/"
	}
	url := api + p
	body := ""
	if method == "POST" {
		m := g.sample("method", g.methods())
		if rapid.IntRange(0, 7).Draw(g.t, "dotmethod") == 0 {
			// an escaped dot inside the method segment: no valid method, and not a
			// way to reach the resource one token further down
			m = g.sample("method", g.methods()) + "%2E" + m
		}
		url += "/" + m
		if rapid.IntRange(0, 2).Draw(g.t, "hasbody") == 0 {
			body = `{"a":1}`
		}
	}
	if q != "" {
		url += "?" + q
	}
	g.http++
	g.w.Exec(Op{K: "http", C: g.http, M: method, S: url, P: body})
}

// RunPrologue establishes 1-2 connections with confirmed subscriptions.
func (g *Gen) RunPrologue() {
	nc := rapid.IntRange(1, 2).Draw(g.t, "pconns")
	if nc > g.p.MaxConns {
		nc = g.p.MaxConns
	}
	for i := 0; i < nc; i++ {
		g.opConnect()
	}
	for _, c := range g.openConns() {
		if rapid.IntRange(0, 2).Draw(g.t, "ptoken") > 0 {
			g.w.Exec(Op{K: "token", C: c.Idx, P: g.sample("token", []string{`{"u":1}`, `{"u":2}`, `"tok"`}), S: g.sample("tid", []string{"t1", "t2", ""})})
		}
		n := rapid.IntRange(1, 3).Draw(g.t, "psubs")
		for j := 0; j < n; j++ {
			g.w.Exec(Op{K: "creq", C: c.Idx, ID: g.nextID(c), M: "subscribe." + g.sample("rid", g.rids)})
		}
	}
	for i := 0; i < 200; i++ {
		pend := g.w.PendingSorted()
		if len(pend) == 0 {
			break
		}
		pv := pend[0]
		for _, x := range pend {
			if x.P.Seq < pv.P.Seq {
				pv = x
			}
		}
		op := Op{K: "ans", S: pv.P.Subject, Q: pv.P.Query, A: actorEnc(pv.Actor), N: pv.Ord, O: "ok"}
		if strings.HasPrefix(pv.P.Subject, "access.") {
			op.P = `{"get":true,"call":` + jstr(g.sample("calllist", g.callLists())) + `}`
		}
		g.w.Exec(op)
		if g.w.Failed != "" || g.w.Deadlock != "" {
			return
		}
	}
}

// opTrigBurst fires a revocation trigger for a directly subscribed resource and
// lets events for that resource reach the gateway inside the re-check window.
func (g *Gen) opTrigBurst(conns []*Client) {
	c := g.conn(conns)
	var rids []string
	for rid, n := range c.Ref.Direct {
		if n > 0 {
			rids = append(rids, rid)
		}
	}
	if len(rids) == 0 {
		return
	}
	sort.Strings(rids)
	rid := g.sample("trid", rids)
	name, _ := g.w.expandRID(c, rid)
	switch rapid.IntRange(0, 2).Draw(g.t, "trigkind") {
	case 0:
		g.w.Exec(Op{K: "token", C: c.Idx, P: g.sample("token", g.tokens()), S: ""})
	case 1:
		g.w.Exec(Op{K: "reaccess", S: name})
	default:
		g.w.Exec(Op{K: "sysreset", P: `{"access":[` + jstr(name) + `]}`})
	}
	n := rapid.IntRange(1, 3).Draw(g.t, "nev")
	for i := 0; i < n; i++ {
		if rapid.IntRange(0, 3).Draw(g.t, "evkind") == 0 && g.w.Svc.def(name) != nil && g.w.Svc.def(name).QueryMap == nil {
			g.mutate("mut", name, "")
		} else {
			g.w.Exec(Op{K: "custom", S: name, M: "custom"})
		}
	}
	if g.wt("call") > 0 && rapid.Bool().Draw(g.t, "callafter") {
		// a call right after the trigger must not be decided on the cached verdict
		g.w.Exec(Op{K: "creq", C: c.Idx, ID: g.nextID(c), M: "call." + rid + "." + g.sample("method", g.methods())})
	}
}

// opDeleteBurst: a resource the client holds both directly (a verdict is
// cached for it) and below another resource it holds is deleted; a trigger
// that would invalidate the verdict follows; then the client asks for the
// resource again. The delete leaves the connection's subscription alive (the
// parent keeps it) but cut off from the cache, so whatever it remembered about
// access must not be used.
func (g *Gen) opDeleteBurst(conns []*Client) {
	c := g.conn(conns)
	var cands []string
	for rid, n := range c.Ref.Direct {
		if n <= 0 || strings.Contains(rid, "?") || strings.Contains(rid, "{cid}") {
			continue
		}
		r := c.Ref.Held[rid]
		if r == nil || r.Type == 'e' || r.Deleted {
			continue
		}
		// referenced by another resource the client holds
		for prid, pr := range c.Ref.Held {
			if prid == rid || pr.Type == 'e' {
				continue
			}
			refd := false
			for _, x := range pr.Refs() {
				if x == rid {
					refd = true
				}
			}
			if refd {
				cands = append(cands, rid)
				break
			}
		}
	}
	if len(cands) == 0 {
		return
	}
	sort.Strings(cands)
	rid := g.sample("dbrid", cands)
	g.w.Exec(Op{K: "delete", S: rid})
	switch rapid.IntRange(0, 3).Draw(g.t, "dbtrig") {
	case 0:
		g.w.Exec(Op{K: "reaccess", S: rid})
	case 1:
		g.w.Exec(Op{K: "sysreset", P: `{"access":[` + jstr(rid) + `]}`})
	case 2:
		g.w.Exec(Op{K: "sysreset", P: `{"access":[">"]}`})
	}
	switch g.sample("dbaction", []string{"subscribe", "subscribe", "get", "call"}) {
	case "call":
		g.w.Exec(Op{K: "creq", C: c.Idx, ID: g.nextID(c), M: "call." + rid + "." + g.sample("method", g.methods())})
	case "get":
		g.w.Exec(Op{K: "creq", C: c.Idx, ID: g.nextID(c), M: "get." + rid})
	default:
		g.w.Exec(Op{K: "creq", C: c.Idx, ID: g.nextID(c), M: "subscribe." + rid})
	}
}

// opThrottleBurst: a system reset whose access re-checks queue up in the reset
// throttle, followed at once by requests on the resources whose re-check is
// waiting (they wait for the same verdict) and unsubscribes of them.
func (g *Gen) opThrottleBurst(conns []*Client) {
	c := g.conn(conns)
	var rids []string
	for rid, n := range c.Ref.Direct {
		if n > 0 {
			rids = append(rids, rid)
		}
	}
	sort.Strings(rids)
	payload := g.sample("tbreset", []string{`{"access":[">"]}`, `{"access":["t.>"]}`, `{"resources":[">"],"access":[">"]}`})
	g.w.Exec(Op{K: "sysreset", P: payload})
	if len(rids) == 0 {
		return
	}
	n := rapid.IntRange(1, 4).Draw(g.t, "tbn")
	for i := 0; i < n; i++ {
		rid := g.sample("tbrid", rids)
		switch g.sample("tbaction", []string{"call", "call", "unsubscribe", "unsubscribe", "get", "subscribe"}) {
		case "call":
			g.w.Exec(Op{K: "creq", C: c.Idx, ID: g.nextID(c), M: "call." + rid + "." + g.sample("method", g.methods())})
		case "unsubscribe":
			g.w.Exec(Op{K: "creq", C: c.Idx, ID: g.nextID(c), M: "unsubscribe." + rid})
		case "get":
			g.w.Exec(Op{K: "creq", C: c.Idx, ID: g.nextID(c), M: "get." + rid})
		default:
			g.w.Exec(Op{K: "creq", C: c.Idx, ID: g.nextID(c), M: "subscribe." + rid})
		}
	}
}

// opHTTPBurst: an HTTP GET, and while its resource (or part of its tree) is
// still loading, events for that resource: a reaccess event, custom events, a
// mutation. An HTTP request holds them back, and is a closed connection once it
// is answered: nothing may be requested for it afterwards.
func (g *Gen) opHTTPBurst() {
	var names []string
	for _, n := range g.names {
		if !strings.Contains(n, "{") {
			names = append(names, n)
		}
	}
	if len(names) == 0 {
		return
	}
	name := g.sample("hbname", names)
	api := g.w.Cfg.APIPath
	if api == "" {
		api = "/api/"
	}
	if !strings.HasSuffix(api, "/") {
		api += "/"
	}
	p, _ := ridToPath(name)
	g.http++
	g.w.Exec(Op{K: "http", C: g.http, M: "GET", S: api + p})
	if rapid.Bool().Draw(g.t, "hbget") {
		// the root's own get answered, its references still loading
		for _, pv := range g.w.PendingSorted() {
			if pv.P.Subject == "get."+name && pv.P.Query == "" {
				g.w.Exec(Op{K: "ans", S: pv.P.Subject, Q: pv.P.Query, A: actorEnc(pv.Actor), N: pv.Ord, O: "ok"})
				break
			}
		}
	}
	n := rapid.IntRange(1, 3).Draw(g.t, "hbn")
	for i := 0; i < n; i++ {
		switch rapid.IntRange(0, 3).Draw(g.t, "hbkind") {
		case 0, 1:
			g.w.Exec(Op{K: "reaccess", S: name})
		case 2:
			g.w.Exec(Op{K: "custom", S: name, M: "custom"})
		default:
			g.mutate("mut", name, "")
		}
	}
}

// opResetFailBurst: a system reset whose re-fetch fails (timeout or error), and
// state events for the resource afterwards: the failed re-fetch must not leave
// the resource deaf to them, nor to later resets.
func (g *Gen) opResetFailBurst() {
	if len(g.names) == 0 {
		return
	}
	name := g.sample("rfname", g.names)
	g.mutate("silent", name, "")
	g.w.Exec(Op{K: "sysreset", P: `{"resources":[` + jstr(name) + `]}`})
	for _, pv := range g.w.PendingSorted() {
		if pv.P.Subject == "get."+name && pv.P.Query == "" {
			op := Op{K: "ans", S: pv.P.Subject, Q: pv.P.Query, A: actorEnc(pv.Actor), N: pv.Ord, O: "timeout"}
			if rapid.Bool().Draw(g.t, "rferr") {
				op.O, op.P = "err", "system.internalError"
			}
			g.w.Exec(op)
			break
		}
	}
	n := rapid.IntRange(1, 2).Draw(g.t, "rfn")
	for i := 0; i < n; i++ {
		g.mutate("mut", name, "")
	}
}

// opQBurst: events held behind consecutive query events of one resource name:
// query event, custom events, another query event, more custom events - the
// query requests stay outstanding, so the later entries queue up behind the
// lock and the second query event re-locks from the middle of a batch.
func (g *Gen) opQBurst() {
	name := g.sample("qbname", g.qnames)
	for round := 0; round < 2; round++ {
		g.w.Exec(Op{K: "qevent", S: name})
		n := rapid.IntRange(1, 2).Draw(g.t, "qbn")
		for i := 0; i < n; i++ {
			g.w.Exec(Op{K: "custom", S: name, M: "custom"})
		}
	}
}

// opAliasBurst: two raw queries that the service normalises to the same query
// are subscribed with both gets in flight; the second one is answered first
// (which loads the shared resource), then the first one - successfully, with an
// error, a timeout, or (when the profile injects) a malformed payload.
func (g *Gen) opAliasBurst(conns []*Client) {
	name := g.sample("abname", g.qnames)
	d := g.w.Svc.def(name)
	if d == nil || len(d.QueryMap) == 0 {
		return
	}
	byNorm := map[string][]string{}
	for raw, norm := range d.QueryMap {
		byNorm[norm] = append(byNorm[norm], raw)
	}
	var norms []string
	for n, raws := range byNorm {
		if len(raws) >= 2 {
			sort.Strings(raws)
			norms = append(norms, n)
		}
	}
	if len(norms) == 0 {
		return
	}
	sort.Strings(norms)
	raws := byNorm[g.sample("abnorm", norms)]
	i := rapid.IntRange(0, len(raws)-1).Draw(g.t, "abfirst")
	j := rapid.IntRange(0, len(raws)-2).Draw(g.t, "absecond")
	if j >= i {
		j++
	}
	c1, c2 := g.conn(conns), g.conn(conns)
	g.w.Exec(Op{K: "creq", C: c1.Idx, ID: g.nextID(c1), M: "subscribe." + name + "?" + raws[i]})
	g.w.Exec(Op{K: "creq", C: c2.Idx, ID: g.nextID(c2), M: "subscribe." + name + "?" + raws[j]})
	answer := func(q string, first bool) {
		for _, pv := range g.w.PendingSorted() {
			if pv.P.Subject != "get."+name || pv.P.Query != q {
				continue
			}
			op := Op{K: "ans", S: pv.P.Subject, Q: pv.P.Query, A: actorEnc(pv.Actor), N: pv.Ord, O: "ok"}
			if !first {
				switch k := rapid.IntRange(0, 9).Draw(g.t, "about"); {
				case k < 3 && g.wt("inject") > 0:
					op.O, op.P, op.Key = "raw", g.sample("ianswer", badGetAnswer), "inject:get/answer"
				case k < 4:
					op.O, op.P = "err", "system.internalError"
				case k < 5:
					op.O = "timeout"
				case k < 6:
					op.O, op.P = "err", "system.notFound"
				}
			}
			g.w.Exec(op)
			return
		}
	}
	answer(raws[j], true)
	if rapid.Bool().Draw(g.t, "abqevent") {
		// a query event, answered, while the first get is still outstanding
		norm := d.QueryMap[raws[i]]
		g.mutate("silent", name, norm)
		g.w.Exec(Op{K: "qevent", S: name})
		for _, pv := range g.w.PendingSorted() {
			if strings.HasPrefix(pv.P.Subject, "_EVQ.") && g.w.qevSubjects[pv.P.Subject] == name {
				op := Op{K: "ans", S: pv.P.Subject, Q: pv.P.Query, A: actorEnc(pv.Actor), N: pv.Ord, O: "ok"}
				// the resource is gone: a delete while a subscriber still waits for its own get
				if rapid.IntRange(0, 3).Draw(g.t, "abqnotfound") == 0 {
					op.O, op.P = "err", "system.notFound"
				}
				g.w.Exec(op)
			}
		}
	}
	answer(raws[i], false)
}

// opGCBurst releases a tree the client holds while another tree, which may
// share children with it, is still loading on the same connection (the shape
// of issue #241): subscribe P, answer P itself but not its children, release R
// completely; the epilogue answers the rest.
func (g *Gen) opGCBurst(conns []*Client) {
	c := g.conn(conns)
	var held []string
	for rid, n := range c.Ref.Direct {
		if n > 0 {
			held = append(held, rid)
		}
	}
	if len(held) == 0 {
		return
	}
	sort.Strings(held)
	r := g.sample("gcroot", held)
	p := g.sample("gcother", g.rids)
	if rapid.IntRange(0, 3).Draw(g.t, "gcshare") > 0 {
		// prefer a tree that shares a child with what the client holds and has
		// another child still to be fetched
		var cands []string
		for _, d := range g.w.Cfg.Resources {
			if d.QueryMap != nil || d.PerCID || d.Name == r || c.Ref.Direct[d.Name] > 0 {
				continue
			}
			shared, fresh := false, false
			chk := func(v Val) {
				if v.K == 'r' {
					if _, ok := c.Ref.Held[v.R]; ok {
						shared = true
					} else {
						fresh = true
					}
				}
			}
			for _, v := range d.Model {
				chk(v)
			}
			for _, v := range d.Coll {
				chk(v)
			}
			if shared && fresh {
				cands = append(cands, d.Name)
			}
		}
		if len(cands) > 0 {
			sort.Strings(cands)
			p = g.sample("gcshared", cands)
		}
	}
	if p == r {
		return
	}
	// first, sometimes, a completed get of some resource: a get leaves nothing
	// behind, also not in the counts of the children it shares with held trees
	if rapid.IntRange(0, 2).Draw(g.t, "gcget") == 0 {
		q := g.sample("gcgetrid", g.rids)
		if c.Ref.Direct[q] == 0 && !strings.Contains(q, "{") {
			g.w.Exec(Op{K: "creq", C: c.Idx, ID: g.nextID(c), M: "get." + q})
			for i := 0; i < 12; i++ {
				pend := g.w.PendingSorted()
				if len(pend) == 0 {
					break
				}
				pv := pend[0]
				op := Op{K: "ans", S: pv.P.Subject, Q: pv.P.Query, A: actorEnc(pv.Actor), N: pv.Ord, O: "ok"}
				if strings.HasPrefix(pv.P.Subject, "access.") {
					op.P = `{"get":true,"call":"*"}`
				}
				g.w.Exec(op)
			}
		}
	}
	g.w.Exec(Op{K: "creq", C: c.Idx, ID: g.nextID(c), M: "subscribe." + p})
	pname, pq := g.w.expandRID(c, p)
	for _, subj := range []string{"access." + pname, "get." + pname} {
		for _, pv := range g.w.PendingSorted() {
			if pv.P.Subject == subj && pv.P.Query == pq && (pv.Actor == c.Idx || pv.Actor < 0) {
				op := Op{K: "ans", S: pv.P.Subject, Q: pv.P.Query, A: actorEnc(pv.Actor), N: pv.Ord, O: "ok"}
				if strings.HasPrefix(subj, "access.") {
					op.P = `{"get":true,"call":"*"}`
				}
				g.w.Exec(op)
				break
			}
		}
	}
	if rapid.Bool().Draw(g.t, "gcone") {
		if pend := g.w.PendingSorted(); len(pend) > 0 {
			g.opAnswer(pend)
		}
	}
	if n := c.Ref.Direct[r]; n > 1 {
		g.w.Exec(Op{K: "creq", C: c.Idx, ID: g.nextID(c), M: "unsubscribe." + r, P: fmt.Sprintf(`{"count":%d}`, n)})
	} else {
		g.w.Exec(Op{K: "creq", C: c.Idx, ID: g.nextID(c), M: "unsubscribe." + r})
	}
}

// opRefBurst aims at the subscription state machine: a resource the client
// holds gets an event that adds a reference to a target which is, on the same
// connection, unknown, loading, loaded but not yet sent, or already held; more
// events for the holder follow while the target is still in that state.
func (g *Gen) opRefBurst(conns []*Client) {
	c := g.conn(conns)
	var holders []string
	for rid, n := range c.Ref.Direct {
		if n > 0 && !strings.Contains(rid, "?") && !strings.Contains(rid, "{cid}") {
			if d := g.w.Svc.def(rid); d != nil && d.QueryMap == nil {
				holders = append(holders, rid)
			}
		}
	}
	if len(holders) == 0 || len(g.names) == 0 {
		return
	}
	sort.Strings(holders)
	holder := g.sample("rbholder", holders)
	target := g.sample("rbtarget", g.names)
	answer := func(subject string) {
		for _, pv := range g.w.PendingSorted() {
			if pv.P.Subject == subject && (pv.Actor == c.Idx || pv.Actor < 0) {
				op := Op{K: "ans", S: pv.P.Subject, Q: pv.P.Query, A: actorEnc(pv.Actor), N: pv.Ord, O: "ok"}
				if strings.HasPrefix(subject, "access.") {
					op.P = `{"get":true,"call":"*"}`
				}
				g.w.Exec(op)
				return
			}
		}
	}
	switch rapid.IntRange(0, 4).Draw(g.t, "rbstate") {
	case 0: // as it is
	case 1: // loading: get and access outstanding
		g.w.Exec(Op{K: "creq", C: c.Idx, ID: g.nextID(c), M: "subscribe." + target})
	case 2: // loaded, not sent: access outstanding
		g.w.Exec(Op{K: "creq", C: c.Idx, ID: g.nextID(c), M: "subscribe." + target})
		answer("get." + target)
	case 3: // access granted, data outstanding
		g.w.Exec(Op{K: "creq", C: c.Idx, ID: g.nextID(c), M: "subscribe." + target})
		answer("access." + target)
	case 4: // cached for another connection only
		if len(conns) > 1 {
			o := g.conn(conns)
			if o != c {
				g.w.Exec(Op{K: "creq", C: o.Idx, ID: g.nextID(o), M: "subscribe." + target})
				answer("get." + target)
			}
		}
	}
	d := g.w.Svc.def(holder)
	v := g.w.Svc.variant(d, holder, "")
	ref := Ref(target)
	if rapid.IntRange(0, 5).Draw(g.t, "rbsoft") == 0 {
		ref = Soft(target)
	}
	target2 := ""
	if v.Type == 'm' && rapid.IntRange(0, 2).Draw(g.t, "rbtwo") == 0 {
		// one change event that introduces two references at once: both are handed
		// over by it, and both go on receiving their events
		target2 = g.sample("rbtarget2", g.names)
		ref2 := Ref(target2)
		keys := []string{"a", "r", "s"}
		k1 := rapid.IntRange(0, 2).Draw(g.t, "rbk1")
		k2 := (k1 + 1 + rapid.IntRange(0, 1).Draw(g.t, "rbk2")) % 3
		g.w.Exec(Op{K: "mutm", S: holder, Par: []Op{{Key: keys[k1], Val: &ref}, {Key: keys[k2], Val: &ref2}}})
	} else if v.Type == 'm' {
		g.w.Exec(Op{K: "mut", S: holder, O: "set", Key: g.sample("key", []string{"a", "r", "s"}), Val: &ref})
	} else {
		g.w.Exec(Op{K: "mut", S: holder, O: "add", N: rapid.IntRange(0, len(v.Coll)).Draw(g.t, "idx"), Val: &ref})
	}
	// more events while the target is in that state: for the holder, and for the
	// target itself (they must wait behind the event that hands the target over)
	n := rapid.IntRange(1, 4).Draw(g.t, "rbnev")
	for i := 0; i < n; i++ {
		on := holder
		if rapid.Bool().Draw(g.t, "rbontarget") {
			on = target
			if target2 != "" && rapid.Bool().Draw(g.t, "rbontarget2") {
				on = target2
			}
		}
		if rapid.Bool().Draw(g.t, "rbmut") {
			g.mutate("mut", on, "")
		} else {
			g.w.Exec(Op{K: "custom", S: on, M: "custom"})
		}
	}
	// an access re-check of the holder is triggered while the event that added
	// the reference may still be waiting for the target: it is deferred behind it
	if g.wt("reaccess") > 0 && rapid.IntRange(0, 2).Draw(g.t, "rbtrigger") == 0 {
		switch rapid.IntRange(0, 2).Draw(g.t, "rbtrigkind") {
		case 0:
			g.w.Exec(Op{K: "reaccess", S: holder})
		case 1:
			g.w.Exec(Op{K: "sysreset", P: `{"access":[` + jstr(holder) + `]}`})
		default:
			g.w.Exec(Op{K: "token", C: c.Idx, P: g.sample("token", g.tokens())})
		}
	}
	// the holder is released while the event that added the reference may still
	// be waiting for the target
	if rapid.IntRange(0, 3).Draw(g.t, "rbrelease") == 0 {
		if n := c.Ref.Direct[holder]; n > 1 {
			g.w.Exec(Op{K: "creq", C: c.Idx, ID: g.nextID(c), M: "unsubscribe." + holder, P: fmt.Sprintf(`{"count":%d}`, n)})
		} else if n == 1 {
			g.w.Exec(Op{K: "creq", C: c.Idx, ID: g.nextID(c), M: "unsubscribe." + holder})
		}
	}
}

// opGetOverlapBurst: a subscribe to a tree stays pending on one slow child
// while a get of another tree that shares a child with it runs to completion;
// then events for the shared child; then the slow child loads. The get must
// leave the shared child exactly as the pending subscribe needs it: handed
// over by the subscribe's response, its events after that.
func (g *Gen) opGetOverlapBurst(conns []*Client) {
	c := g.conn(conns)
	refsOf := func(d *ResDef) []string {
		var out []string
		for _, v := range d.Model {
			if v.K == 'r' {
				out = append(out, v.R)
			}
		}
		for _, v := range d.Coll {
			if v.K == 'r' {
				out = append(out, v.R)
			}
		}
		sort.Strings(out)
		return out
	}
	plain := func(name string) bool {
		d := g.w.Svc.def(name)
		return d != nil && d.QueryMap == nil && !d.PerCID && !d.Missing && !strings.Contains(name, "{") && c.Ref.Held[name] == nil
	}
	type cand struct{ p2, p1, x, y string }
	var cands []cand
	for i := range g.w.Cfg.Resources {
		d2 := &g.w.Cfg.Resources[i]
		if !plain(d2.Name) {
			continue
		}
		r2 := refsOf(d2)
		for _, x := range r2 {
			for _, y := range r2 {
				if x == y || !plain(x) || !plain(y) || x == d2.Name || y == d2.Name {
					continue
				}
				for j := range g.w.Cfg.Resources {
					d1 := &g.w.Cfg.Resources[j]
					if d1.Name == d2.Name || d1.Name == x || d1.Name == y || !plain(d1.Name) {
						continue
					}
					for _, r := range refsOf(d1) {
						if r == x {
							cands = append(cands, cand{d2.Name, d1.Name, x, y})
						}
					}
				}
			}
		}
	}
	if len(cands) == 0 {
		return
	}
	k := cands[rapid.IntRange(0, len(cands)-1).Draw(g.t, "gocand")]
	answer := func(subject string) bool {
		for _, pv := range g.w.PendingSorted() {
			if pv.P.Subject == subject {
				op := Op{K: "ans", S: pv.P.Subject, Q: pv.P.Query, A: actorEnc(pv.Actor), N: pv.Ord, O: "ok"}
				if strings.HasPrefix(subject, "access.") {
					op.P = `{"get":true,"call":"*"}`
				}
				g.w.Exec(op)
				return true
			}
		}
		return false
	}
	g.w.Exec(Op{K: "creq", C: c.Idx, ID: g.nextID(c), M: "subscribe." + k.p2})
	answer("access." + k.p2)
	answer("get." + k.p2)
	answer("get." + k.x)
	// everything below x, but never y
	for i := 0; i < 12; i++ {
		done := true
		for _, pv := range g.w.PendingSorted() {
			if strings.HasPrefix(pv.P.Subject, "get.") && pv.P.Subject != "get."+k.y {
				answer(pv.P.Subject)
				done = false
				break
			}
		}
		if done {
			break
		}
	}
	g.w.Exec(Op{K: "creq", C: c.Idx, ID: g.nextID(c), M: "get." + k.p1})
	answer("access." + k.p1)
	for i := 0; i < 12; i++ {
		done := true
		for _, pv := range g.w.PendingSorted() {
			if strings.HasPrefix(pv.P.Subject, "get.") && pv.P.Subject != "get."+k.y {
				answer(pv.P.Subject)
				done = false
				break
			}
		}
		if done {
			break
		}
	}
	n := rapid.IntRange(1, 3).Draw(g.t, "gonev")
	for i := 0; i < n; i++ {
		g.w.Exec(Op{K: "custom", S: k.x, M: "custom"})
	}
	if rapid.IntRange(0, 3).Draw(g.t, "goleave") > 0 {
		answer("get." + k.y)
	}
}

// opRecheckBurst: a resource the connection holds directly gets, by an event,
// a reference to a resource nobody has loaded (its get stays outstanding), and
// an access re-check of the holder is triggered at once: the re-check is
// deferred behind the waiting event. What happens next - the answer, an
// unsubscribe, the connection closing - is up to the following ops.
func (g *Gen) opRecheckBurst(conns []*Client) {
	c := g.conn(conns)
	var holders []string
	for rid, n := range c.Ref.Direct {
		if n > 0 && !strings.Contains(rid, "?") && !strings.Contains(rid, "{cid}") && c.Ref.Held[rid] != nil && c.Ref.Held[rid].Type != 'e' {
			if d := g.w.Svc.def(rid); d != nil && d.QueryMap == nil {
				holders = append(holders, rid)
			}
		}
	}
	if len(holders) == 0 {
		return
	}
	sort.Strings(holders)
	holder := g.sample("rcholder", holders)
	var fresh []string
	for _, n := range g.names {
		used := false
		for _, o := range g.w.Clients {
			if o.Ref.Held[n] != nil {
				used = true
			}
		}
		for _, pv := range g.w.PendingSorted() {
			if pv.P.Subject == "get."+n {
				used = true
			}
		}
		if d := g.w.Svc.def(n); !used && d != nil && d.QueryMap == nil && !d.PerCID {
			fresh = append(fresh, n)
		}
	}
	if len(fresh) == 0 {
		return
	}
	target := g.sample("rctarget", fresh)
	// more subscriptions on the connection first (left unanswered): the order in
	// which a closing connection walks its subscriptions is the iteration order
	// of a map, and the later the target is entered the likelier it comes
	// before its holder
	for i, nf := 0, rapid.IntRange(0, 5).Draw(g.t, "rcfillers"); i < nf; i++ {
		f := g.sample("rcfiller", fresh)
		if f != target {
			g.w.Exec(Op{K: "creq", C: c.Idx, ID: g.nextID(c), M: "subscribe." + f})
		}
	}
	d := g.w.Svc.def(holder)
	v := g.w.Svc.variant(d, holder, "")
	ref := Ref(target)
	if v.Type == 'm' {
		g.w.Exec(Op{K: "mut", S: holder, O: "set", Key: g.sample("key", []string{"a", "r", "s"}), Val: &ref})
	} else {
		g.w.Exec(Op{K: "mut", S: holder, O: "add", N: rapid.IntRange(0, len(v.Coll)).Draw(g.t, "idx"), Val: &ref})
	}
	switch rapid.IntRange(0, 2).Draw(g.t, "rctrigkind") {
	case 0:
		g.w.Exec(Op{K: "reaccess", S: holder})
	case 1:
		g.w.Exec(Op{K: "sysreset", P: `{"access":[` + jstr(holder) + `]}`})
	default:
		g.w.Exec(Op{K: "token", C: c.Idx, P: g.sample("token", g.tokens())})
		g.w.Exec(Op{K: "token", C: c.Idx, P: g.sample("token", g.tokens())})
	}
}

var hostileTokens = []string{"a", "b", "t", "*", ">", "?", " ", "é", "", "a*", "*a", "a>", "\t", "\r\n", "\x00", "\x7f", "~", "!", "{cid}", "a b", "\xff", "%2E"}

// opHostileReq sends a request whose method string is drawn from a grammar of hostile tokens.
func (g *Gen) opHostileReq(conns []*Client) {
	c := g.conn(conns)
	action := g.sample("haction", []string{"get", "subscribe", "unsubscribe", "call", "auth", "new", "version", "foo", "", "Get"})
	n := rapid.IntRange(0, 4).Draw(g.t, "hn")
	toks := make([]string, n)
	for i := range toks {
		if rapid.IntRange(0, 2).Draw(g.t, "plain") > 0 {
			toks[i] = g.sample("ptok", []string{"t", "a", "b", "set"})
		} else {
			toks[i] = g.sample("htok", hostileTokens)
		}
	}
	m := action
	if n > 0 || rapid.Bool().Draw(g.t, "dot") {
		m += "." + strings.Join(toks, ".")
	}
	if rapid.IntRange(0, 4).Draw(g.t, "hq") == 0 {
		m += "?" + g.sample("hquery", []string{"", "a=1", "x.y=*", " ", ">", "\n", "a=1?b=2", "?", "x .>?y", "a=?"})
	}
	g.w.Exec(Op{K: "creq", C: c.Idx, ID: g.nextID(c), M: m})
}

// opHostileHTTP issues an HTTP request with a path drawn from hostile segments.
func (g *Gen) opHostileHTTP() {
	api := g.w.Cfg.APIPath
	if api == "" {
		api = "/api/"
	}
	if !strings.HasSuffix(api, "/") {
		api += "/"
	}
	n := rapid.IntRange(0, 4).Draw(g.t, "hsn")
	segs := make([]string, n)
	for i := range segs {
		if rapid.IntRange(0, 2).Draw(g.t, "plain") > 0 {
			segs[i] = g.sample("pseg", []string{"t", "a", "b", "set"})
		} else {
			segs[i] = g.sample("hseg", []string{"%2E", "%2e", "a%2Eb", "%20", "%2A", "%3E", "%3F", "*", ">", "", "%zz", "%", "é", "%C3%A9", "a.b", ".", "%0A", "%0D%0A", "~", "%2F", "+", "%00", "%7F", "a%20b", "{cid}"})
		}
	}
	prefix := api
	if rapid.IntRange(0, 9).Draw(g.t, "badprefix") == 0 {
		prefix = g.sample("prefix", []string{"/", "/ap/", "/api", "/api//"})
	}
	if rapid.IntRange(0, 9).Draw(g.t, "encprefix") == 0 {
		// one character of the configured prefix itself percent-encoded: the decoded
		// path still routes to the API handler, the raw path does not start with it
		var pos []int
		for i := 0; i < len(prefix); i++ {
			if prefix[i] != '/' {
				pos = append(pos, i)
			}
		}
		if len(pos) > 0 {
			i := pos[rapid.IntRange(0, len(pos)-1).Draw(g.t, "encpos")]
			enc := fmt.Sprintf("%%%02X", prefix[i])
			if rapid.Bool().Draw(g.t, "enclower") {
				enc = strings.ToLower(enc)
			}
			prefix = prefix[:i] + enc + prefix[i+1:]
		}
	}
	url := prefix + strings.Join(segs, "/")
	if rapid.IntRange(0, 3).Draw(g.t, "hq") == 0 {
		url += "?" + g.sample("hquery", []string{"a=1", "x.y=*", "%20", "a=>", "a=1?b=2", "?", "x%20.%3E?y", "a=1%3Fb=2"})
	}
	method := g.sample("hmethod", []string{"GET", "GET", "POST", "POST", "HEAD", "PUT", "DELETE"})
	g.http++
	g.w.Exec(Op{K: "http", C: g.http, M: method, S: url})
}

// opBadAnswer answers a get/call/auth request with service-supplied invalid resource ids.
func (g *Gen) opBadAnswer(pend []PendingView) {
	pv := pend[rapid.IntRange(0, len(pend)-1).Draw(g.t, "pending")]
	op := Op{K: "ans", S: pv.P.Subject, Q: pv.P.Query, A: actorEnc(pv.Actor), N: pv.Ord, O: "raw"}
	bad := g.sample("badrid", []string{"t.*", "t.>", "t..a", "", "t. a", ".t", "t.", "t.a\n", "?q", "t.é"})
	bj := jstr(bad)
	switch {
	case strings.HasPrefix(pv.P.Subject, "get."):
		op.P = g.sample("badget", []string{
			`{"result":{"model":{"a":1,"r":{"rid":` + bj + `}}}}`,
			`{"result":{"collection":[1,{"rid":` + bj + `}]}}`,
			`{"result":{"model":{"r":{"rid":` + bj + `,"soft":true}}}}`,
		})
	case strings.HasPrefix(pv.P.Subject, "access."):
		return
	default:
		op.P = `{"resource":{"rid":` + bj + `}}`
	}
	g.w.Exec(op)
}

// opBadEvent: a service event that carries a reference which is no valid
// resource id (change, legacy change, add; hard and soft). It is not to be
// followed: no subject derived from it may appear.
func (g *Gen) opBadEvent() {
	if len(g.names) == 0 {
		return
	}
	name := g.sample("bename", g.names)
	d := g.w.Svc.def(name)
	if d == nil {
		return
	}
	bad := g.sample("badrid", []string{"t.*", "t.>", "t..a", "", "t. a", ".t", "t.", "t.a\n", "?q", "t.é", ">", "t.\t"})
	ref := `{"rid":` + jstr(bad) + `}`
	if rapid.IntRange(0, 3).Draw(g.t, "besoft") == 0 {
		ref = `{"rid":` + jstr(bad) + `,"soft":true}`
	}
	if d.Type == "collection" {
		g.w.Exec(Op{K: "rawev", S: "event." + name + ".add", P: `{"idx":0,"value":` + ref + `}`, Key: "badevent"})
		return
	}
	if rapid.IntRange(0, 3).Draw(g.t, "belegacy") == 0 {
		g.w.Exec(Op{K: "rawev", S: "event." + name + ".change", P: `{"zz":` + ref + `}`, Key: "badevent"})
		return
	}
	g.w.Exec(Op{K: "rawev", S: "event." + name + ".change", P: `{"values":{"zz":` + ref + `}}`, Key: "badevent"})
}

// opHTTPToken: a token event for the connection of an HTTP request that is
// being served (a request of its connection is outstanding at the services).
func (g *Gen) opHTTPToken(pend []PendingView) {
	var cids []string
	for _, pv := range pend {
		if pv.Actor >= 1000 && pv.P.CID != "" {
			cids = append(cids, pv.P.CID)
		}
	}
	if len(cids) == 0 {
		return
	}
	sort.Strings(cids)
	cid := g.sample("htcid", cids)
	g.w.Exec(Op{K: "rawev", S: "conn." + cid + ".token", P: `{"token":` + g.sample("token", g.tokens()) + `}`, Key: "httptoken"})
}

// opStallBurst: a client stops reading its socket and sends two requests that
// are answered at once: the first answer is taken by the read already under
// way, the second leaves the connection's worker inside a write. What the
// gateway does with such a connection at Stop is up to the fault that follows.
func (g *Gen) opStallBurst(conns []*Client) {
	c := g.conn(conns)
	if c.stallCh() != nil {
		return
	}
	g.w.Exec(Op{K: "cstall", C: c.Idx})
	for i := 0; i < 2; i++ {
		g.w.Exec(Op{K: "creq", C: c.Idx, ID: g.nextID(c), M: "version", P: `{"protocol":"1.2.3"}`})
	}
}

// opConnEvent: an event on a connection's subject that is not the token event.
// The protocol has no other connection event: nothing happens, whatever the
// payload looks like.
func (g *Gen) opConnEvent(conns []*Client) {
	c := g.conn(conns)
	if c.CID == "" {
		return
	}
	ev := g.sample("connev", []string{"ping", "tokens", "Token", "reaccess", "x", "token.x"})
	p := g.sample("connevpayload", []string{`{"ts":1}`, `{"token":{"u":9},"tid":"t9"}`, `{}`, `null`, `{"token":null}`, ``})
	g.w.Exec(Op{K: "rawev", S: "conn." + c.CID + "." + ev, P: p, Key: "connevent"})
}

// opCIDEvent mutates (and announces) the {cid} resource instance of one connection.
func (g *Gen) opCIDEvent(conns []*Client) {
	c := g.conn(conns)
	if c.CID == "" {
		return
	}
	for _, d := range g.w.Cfg.Resources {
		if d.PerCID && d.Type == "model" {
			name := strings.Replace(d.Name, "{cid}", c.CID, -1)
			v := g.w.Svc.Fresh()
			g.w.Exec(Op{K: "mut", S: name, O: "set", Key: "k", Val: &v})
			return
		}
	}
}
