package sim

import (
	"fmt"
	"sort"
	"strings"
)

// baseMon provides class counting and violation collection.
type baseMon struct {
	prop    string
	classes map[string]int
	viols   []Violation
	nontriv bool
}

func (b *baseMon) init(prop string) {
	b.prop = prop
	b.classes = map[string]int{}
}
func (b *baseMon) class(c string)              { b.classes[c]++ }
func (b *baseMon) Classes() map[string]int     { return b.classes }
func (b *baseMon) NonTrivial() bool            { return b.nontriv }
func (b *baseMon) OnLog(w *World, e *LogEntry) {}
func (b *baseMon) OnStepEnd(w *World, s int)   {}
func (b *baseMon) violate(w *World, class, format string, a ...interface{}) {
	b.viols = append(b.viols, Violation{Property: b.prop, Class: class, Message: fmt.Sprintf(format, a...), Step: w.step})
}

// clientViolations collects the reference clients' violations for a property.
func clientViolations(w *World, prop string) []Violation {
	var r []Violation
	for _, c := range w.Clients {
		for _, v := range c.Ref.Viol {
			if v.Prop == prop {
				r = append(r, Violation{Property: prop, Class: v.Class, Message: v.Msg, Step: w.stepOfT(v.T), Conn: c.Idx, RID: v.RID, T: v.T, Other: v.Other})
			}
		}
	}
	return r
}

func (w *World) stepOfT(t int) int {
	l := w.Log()
	if t >= 0 && t < len(l) {
		return l[t].Step
	}
	return -1
}

// ---------------------------------------------------------------------------
// C07: exactly one response per client request

type MonC07 struct {
	baseMon
}

func NewMonC07() *MonC07 { m := &MonC07{}; m.init("C07"); return m }

func (m *MonC07) OnEnd(w *World) []Violation {
	vs := clientViolations(w, "C07")
	for _, c := range w.Clients {
		overlap := false
		hit := false
		byRID := map[string]int{}
		for _, id := range c.Ref.ReqOrder {
			r := c.Ref.Reqs[id]
			if r.RID != "" {
				byRID[r.RID]++
			}
		}
		_ = byRID
		// non-trivial: >=2 requests for one rid overlapped, or an unsubscribe /
		// revocation / delete hit a subscription with a pending request
		for i, id := range c.Ref.ReqOrder {
			r := c.Ref.Reqs[id]
			end := r.RespT
			if r.Resp == 0 {
				end = 1 << 30
			}
			for _, id2 := range c.Ref.ReqOrder[i+1:] {
				r2 := c.Ref.Reqs[id2]
				if r2.RID == r.RID && r.RID != "" && r2.SentT < end {
					overlap = true
					if r2.Action == "unsubscribe" {
						hit = true
					}
				}
			}
			for _, ev := range c.Ref.Events {
				if ev.RID == r.RID && (ev.Event == "unsubscribe" || ev.Event == "delete") && ev.T > r.SentT && ev.T < end {
					hit = true
				}
			}
		}
		if overlap {
			m.class("overlapping_requests")
			m.nontriv = true
		}
		if hit {
			m.class("unsub_or_revocation_hit_pending")
			m.nontriv = true
		}
		if c.Closed || c.EOF || !c.Dialed {
			m.class("conn_closed")
			continue
		}
		for _, id := range c.Ref.ReqOrder {
			r := c.Ref.Reqs[id]
			if r.Dup || r.Optional {
				continue
			}
			if r.Resp == 0 {
				class := "no_response"
				vs = append(vs, Violation{Property: "C07", Class: class, Step: r.SentStep, Conn: c.Idx, RID: r.RID, T: r.SentT,
					Message: fmt.Sprintf("c%d: request #%d %s (sent at step %d) never received a response although the system is quiescent and nothing is pending", c.Idx, r.ID, r.Method, r.SentStep)})
			}
		}
	}
	if w.mq.PendingCount() > 0 {
		m.class("pending_at_end")
	}
	return append(vs, m.viols...)
}

// ---------------------------------------------------------------------------
// C08: direct subscription accounting (deterministic mode only)

type unsubSnap struct {
	lo        int
	inflight  int
	uncertain bool
	nonObject bool
}

type MonC08 struct {
	baseMon
	revoked     map[string]int
	ambig       map[string]bool       // conn|rid: an unsubscribe succeeded against in-flight counts; exact accounting undefined afterwards
	snaps       map[string]*unsubSnap // conn/id -> snapshot at request time
	fresh       map[string]string     // conn/id -> expected access subject+query for "afresh" obligations
	failedOrGet map[string]bool       // conn|rid had a failed request or a get
}

func NewMonC08() *MonC08 {
	m := &MonC08{revoked: map[string]int{}, ambig: map[string]bool{}, snaps: map[string]*unsubSnap{}, fresh: map[string]string{}, failedOrGet: map[string]bool{}}
	m.init("C08")
	return m
}

func reqKey(conn int, id uint64) string { return fmt.Sprintf("%d/%d", conn, id) }

func splitRID(rid string) (name, query string) {
	if i := strings.IndexByte(rid, '?'); i >= 0 {
		return rid[:i], rid[i+1:]
	}
	return rid, ""
}

func (m *MonC08) OnLog(w *World, e *LogEntry) {
	switch e.Kind {
	case "frame":
		c := w.Clients[e.Conn]
		if r := c.Ref.LastResp; r != nil && r.Action == "unsubscribe" && !r.Dup && r.Resp == 1 {
			m.judge(w, c, r)
		}
		if r := c.Ref.LastResp; r != nil && r.Resp == 1 && r.Error != nil && r.Error.Code == "system.subscriptionLimitExceeded" {
			m.class("failed_at_subscription_limit")
			m.nontriv = true
		}
		if n := len(c.Ref.Events); n > 0 && c.Ref.LastResp == nil && c.Ref.Events[n-1].T == e.T && c.Ref.Events[n-1].Event == "unsubscribe" {
			rid := c.Ref.Events[n-1].RID
			for _, id := range c.Ref.ReqOrder {
				q := c.Ref.Reqs[id]
				if q.Resp > 0 || q.SentT >= e.T {
					continue
				}
				if (q.RID == rid && (q.Action == "subscribe" || q.Action == "get")) || q.Action == "call" || q.Action == "auth" || q.Action == "new" {
					k := fmt.Sprintf("%d|%s", c.Idx, rid)
					if _, ok := m.revoked[k]; !ok {
						m.revoked[k] = e.T
					}
					m.class("unsubscribe_event_with_requests_in_flight")
				}
			}
		}
		if r := c.Ref.LastResp; r != nil && r.ResRootErr && r.Resp == 1 {
			switch {
			case r.ResDenied:
				m.class("resource_response_denied")
			case c.Ref.AmbigDirect[r.ResRID]:
				m.ambig[fmt.Sprintf("%d|%s", c.Idx, r.ResRID)] = true
				m.class("resource_response_error_ambiguous")
			default:
				m.class("resource_response_load_error")
			}
		}
	case "cframe":
		c := w.Clients[e.Conn]
		// find the request sent at this T
		var r *ClientReq
		for _, q := range c.Ref.Reqs {
			if q.SentT == e.T {
				r = q
			}
		}
		if r == nil || r.Dup {
			return
		}
		outstanding := 0
		sameRID := 0
		uncertain := false
		for _, id := range c.Ref.ReqOrder {
			q := c.Ref.Reqs[id]
			if q == r || q.Resp > 0 || q.SentT >= e.T {
				continue
			}
			outstanding++
			switch q.Action {
			case "subscribe", "get":
				if q.RID == r.RID {
					sameRID++
				}
			case "call", "auth", "new":
				uncertain = true
			}
		}
		switch r.Action {
		case "unsubscribe":
			if !validRIDRef(r.RID) {
				return
			}
			s := &unsubSnap{lo: c.Ref.Direct[r.RID], inflight: sameRID, uncertain: uncertain}
			p := strings.TrimSpace(r.Params)
			if p != "" && p != "null" && !strings.HasPrefix(p, "{") {
				s.nonObject = true
			}
			m.snaps[reqKey(e.Conn, r.ID)] = s
		case "subscribe", "get":
			// "evaluated afresh": quiet world, client does not hold the rid, nothing outstanding
			anyAmbig := false
			for k := range m.ambig {
				if strings.HasPrefix(k, fmt.Sprintf("%d|", e.Conn)) {
					anyAmbig = true
				}
			}
			if outstanding == 0 && !anyAmbig && w.pendingBefore(e.T) == 0 && c.Ref.Held[r.RID] == nil && c.Ref.Direct[r.RID] == 0 && c.CID != "" && validRIDRef(r.RID) {
				name, q := splitRID(strings.Replace(r.RID, "{cid}", c.CID, -1))
				m.fresh[reqKey(e.Conn, r.ID)] = "access." + name + "|" + q + "|" + fmt.Sprint(e.Step)
			}
		}
	}
}

func (m *MonC08) judge(w *World, c *Client, r *ClientReq) {
	id := r.ID
	k := reqKey(c.Idx, id)
	vs := &m.viols
	ak := fmt.Sprintf("%d|%s", c.Idx, r.RID)
	{
		{
			s, ok := m.snaps[k]
			if !ok || r.Resp == 0 {
				return
			}
			hi := s.lo + s.inflight
			if m.ambig[ak] {
				m.class("unsubscribe_after_ambiguity_skipped")
				return
			}
			if !r.IsError && r.Count > s.lo {
				// succeeded against in-flight counts: which requests lost their
				// count is unobservable, exact accounting is undefined from here on
				defer func() { m.ambig[ak] = true }()
			}
			m.class("unsubscribe_judged")
			if s.lo == 0 {
				m.class("unsubscribe_probe_at_zero")
			}
			code := ""
			if r.IsError && r.Error != nil {
				code = r.Error.Code
			}
			switch {
			case s.nonObject:
				m.class("unsubscribe_nonobject_params")
			case r.BadCnt:
				m.class("unsubscribe_bad_count")
				if !r.IsError || code != "system.invalidParams" {
					*vs = append(*vs, Violation{Property: "C08", Class: "bad_count_accepted", Step: r.SentStep, Conn: c.Idx, RID: r.RID, T: r.RespT,
						Message: fmt.Sprintf("c%d: unsubscribe #%d %s params %s: expected system.invalidParams, got error=%v code=%q", c.Idx, id, r.RID, r.Params, r.IsError, code)})
				}
			case r.Count <= s.lo:
				if r.IsError {
					*vs = append(*vs, Violation{Property: "C08", Class: "unsubscribe_refused", Step: r.SentStep, Conn: c.Idx, RID: r.RID, T: r.SentT,
						Message: fmt.Sprintf("c%d: unsubscribe #%d %s count=%d failed (%s) although the client holds %d direct subscriptions", c.Idx, id, r.RID, r.Count, code, s.lo)})
				}
			case r.Count > hi && !s.uncertain:
				if !r.IsError {
					*vs = append(*vs, Violation{Property: "C08", Class: "unsubscribe_beyond_count", Step: r.SentStep, Conn: c.Idx, RID: r.RID, T: r.SentT,
						Message: fmt.Sprintf("c%d: unsubscribe #%d %s count=%d succeeded although only %d direct subscriptions were confirmed and %d requests were in flight", c.Idx, id, r.RID, r.Count, s.lo, s.inflight)})
				} else if code != "system.noSubscription" {
					*vs = append(*vs, Violation{Property: "C08", Class: "wrong_error_code", Step: r.SentStep, Conn: c.Idx, RID: r.RID, T: r.SentT,
						Message: fmt.Sprintf("c%d: unsubscribe #%d %s count=%d failed with %q, expected system.noSubscription", c.Idx, id, r.RID, r.Count, code)})
				}
			default:
				m.class("unsubscribe_in_band")
			}
		}
	}
}

// pendingBefore returns the number of mq requests pending just before log time t.
func (w *World) pendingBefore(t int) int {
	n := 0
	for _, e := range w.Log()[:t] {
		switch e.Kind {
		case "mq_req":
			n++
		case "mq_complete":
			n--
		case "mq_connect":
			n = 0
		}
	}
	return n
}

// validRIDRef is the reference validity predicate for resource ids (C14's
// grammar): dot-separated non-empty tokens of printable non-space ASCII without
// * and >, optionally followed by ?query.
func validRIDRef(rid string) bool {
	name := rid
	if i := strings.IndexByte(rid, '?'); i >= 0 {
		name = rid[:i]
	}
	if name == "" {
		return false
	}
	for _, tok := range strings.Split(name, ".") {
		if tok == "" {
			return false
		}
		for i := 0; i < len(tok); i++ {
			b := tok[i]
			if b < 33 || b > 126 || b == '*' || b == '>' {
				return false
			}
		}
	}
	return true
}

// staleLoadErrors: a get request whose resource failed to load leaves no
// subscription behind, so a later get or subscribe of the same resource on that
// connection is evaluated afresh: if it fails with the same load error, a new
// get request for the resource must have been made in between.
func (m *MonC08) staleLoadErrors(w *World) []Violation {
	var vs []Violation
	log := w.Log()
	loadErr := map[string]bool{"system.notFound": true, "system.timeout": true, "system.internalError": true, "custom.err": true}
	for _, c := range w.Clients {
		if c.CID == "" {
			continue
		}
		for i, id1 := range c.Ref.ReqOrder {
			r1 := c.Ref.Reqs[id1]
			if r1.Action != "get" || r1.Dup || r1.Resp == 0 || !r1.IsError || r1.Error == nil || !loadErr[r1.Error.Code] || !validRIDRef(r1.RID) {
				continue
			}
			name, q := w.expandRID(c, r1.RID)
			// the failure came from the resource's get request
			failed := false
			for _, e := range log[r1.SentT:r1.RespT] {
				if e.Kind == "mq_complete" && e.Subject == "get."+name && (e.Err != "" || strings.Contains(string(e.Payload), `"error"`)) {
					// ... and it is that failure the response reports (not, say, the
					// access request's timeout)
					if (e.Err != "" && r1.Error.Code == "system.timeout") || strings.Contains(string(e.Payload), `"code":"`+r1.Error.Code+`"`) {
						failed = true
					}
				}
			}
			if !failed || c.Ref.Direct[r1.RID] != 0 {
				continue
			}
			// held at time t (directly or below a parent, also as an error
			// placeholder): handed over and not dropped since
			heldAt := func(t int) bool {
				last, held := -1, false
				for _, h := range c.Ref.Handovers {
					if h.RID == r1.RID && h.T < t && h.T > last {
						last, held = h.T, true
					}
				}
				for _, d := range c.Ref.DropLog {
					if d.RID == r1.RID && d.T < t && d.T >= last {
						last, held = d.T, false
					}
				}
				return held
			}
			for _, id2 := range c.Ref.ReqOrder[i+1:] {
				r2 := c.Ref.Reqs[id2]
				if r2.RID != r1.RID || (r2.Action != "get" && r2.Action != "subscribe") || r2.Dup || r2.Resp == 0 || r2.SentT < r1.RespT {
					continue
				}
				if heldAt(r1.RespT) || heldAt(r2.SentT) || reachableFromOutstanding(w, c, r1.RID, r1.RespT) || reachableFromOutstanding(w, c, r1.RID, r2.SentT) {
					// the connection keeps a subscription for it below another resource
					// (one it holds, or one that is still loading)
					m.class("request_after_failed_get_of_held_resource")
					break
				}
				m.class("request_after_failed_get")
				if !r2.IsError || r2.Error == nil || r2.Error.Code != r1.Error.Code {
					break
				}
				answered := false
				for _, e := range log[r1.RespT:r2.RespT] {
					// a fresh evaluation requests the resource anew (whatever then fails)
					if e.Kind == "mq_req" && e.Subject == "get."+name {
						answered = true
					}
				}
				for _, e := range log[r2.SentT:r2.RespT] {
					// ... or waits for one another connection has requested meanwhile
					// (an HTTP request for the same resource) to be answered
					if e.Kind == "mq_complete" && e.Subject == "get."+name {
						answered = true
					}
				}
				_ = q
				if !answered {
					vs = append(vs, Violation{Property: "C08", Class: "answered_from_stale_load_error", Conn: c.Idx, RID: r2.RID, T: r2.RespT, Step: w.stepOfT(r2.RespT),
						Message: fmt.Sprintf("c%d: get #%d of %s failed to load (%s) and left no subscription; request #%d (%s) failed with the same error although no get request for %s was made in between", c.Idx, id1, r1.RID, r1.Error.Code, id2, r2.Method, name)})
				}
				break
			}
		}
	}
	return vs
}

func (m *MonC08) OnEnd(w *World) []Violation {
	var vs []Violation
	vs = append(vs, m.staleLoadErrors(w)...)
	for _, v := range clientViolations(w, "C08") {
		if m.ambig[fmt.Sprintf("%d|%s", v.Conn, v.RID)] {
			m.class("client_violation_after_ambiguity_skipped")
			continue
		}
		vs = append(vs, v)
	}
	log := w.Log()
	for _, c := range w.Clients {
		for _, id := range c.Ref.ReqOrder {
			r := c.Ref.Reqs[id]
			if r.Dup {
				continue
			}
			k := reqKey(c.Idx, id)
			if exp, ok := m.fresh[k]; ok {
				parts := strings.SplitN(exp, "|", 3)
				found := false
				for _, e := range log[r.SentT:] {
					if e.Step != r.SentStep {
						break
					}
					if e.Kind == "mq_req" && e.Subject == parts[0] && e.Query == parts[1] && e.CID == c.CID {
						found = true
					}
				}
				m.class("fresh_probe")
				m.nontriv = true
				if !found && !(r.Resp > 0 && r.IsError && r.RespT < r.SentT+3 && r.Error != nil && r.Error.Code == "system.subjectTooLong") {
					vs = append(vs, Violation{Property: "C08", Class: "not_evaluated_afresh", Step: r.SentStep, Conn: c.Idx, RID: r.RID, T: r.SentT,
						Message: fmt.Sprintf("c%d: request #%d %s issued in a quiet world for a resource the client does not hold caused no access request (%s): a previous request left a subscription behind", c.Idx, id, r.Method, parts[0])})
				}
			}
		}
	}
	// non-trivial: a failed request or a get is followed by a probe on the same rid
	for _, c := range w.Clients {
		failedOrGet := map[string]int{}
		for _, id := range c.Ref.ReqOrder {
			r := c.Ref.Reqs[id]
			if r.Resp == 0 {
				continue
			}
			if r.Action == "unsubscribe" || r.Action == "subscribe" || r.Action == "get" {
				if t, ok := failedOrGet[r.RID]; ok && r.SentT > t {
					m.nontriv = true
					m.class("probe_after_failed_or_get")
				}
			}
			if (r.Action == "get") || (r.IsError && (r.Action == "subscribe" || r.Action == "new" || r.Action == "call")) {
				if _, ok := failedOrGet[r.RID]; !ok {
					failedOrGet[r.RID] = r.RespT
				}
			}
		}
	}
	return append(vs, m.viols...)
}

// EndProbes issues, at the end of a history, unsubscribe probes that pin the
// gateway's direct count exactly: count=lo+1 must fail, count=lo must succeed.
func (m *MonC08) EndProbes(w *World) {
	for _, c := range w.Clients {
		if !c.Dialed || c.Closed || c.EOF {
			continue
		}
		if len(c.Ref.Outstanding()) > 0 {
			continue
		}
		rids := map[string]bool{}
		for rid := range c.Ref.Direct {
			rids[rid] = true
		}
		for _, id := range c.Ref.ReqOrder {
			r := c.Ref.Reqs[id]
			if r.RID != "" && validRIDRef(r.RID) && (r.Action == "subscribe" || r.Action == "get" || r.Action == "unsubscribe") {
				rids[r.RID] = true
			}
		}
		var list []string
		for rid := range rids {
			list = append(list, rid)
		}
		sort.Strings(list)
		if len(list) > 6 {
			list = list[:6]
		}
		for _, rid := range list {
			if m.ambig[fmt.Sprintf("%d|%s", c.Idx, rid)] {
				continue
			}
			lo := c.Ref.Direct[rid]
			if lo < 0 {
				continue
			}
			id := c.NextID
			c.NextID += 2
			w.execEpilogue(Op{K: "creq", C: c.Idx, ID: id, M: "unsubscribe." + rid, P: fmt.Sprintf(`{"count":%d}`, lo+1)})
			if lo > 0 {
				w.execEpilogue(Op{K: "creq", C: c.Idx, ID: id + 1, M: "unsubscribe." + rid, P: fmt.Sprintf(`{"count":%d}`, lo)})
			}
			m.class("end_probe")
		}
	}
}

// lastAccessVerdict returns 1 if the most recent access answer for (conn, rid)
// before log time t granted get, 0 if it did not, -1 if there was none.
func (w *World) lastAccessVerdict(c *Client, rid string, t int) int {
	name, q := splitRID(strings.Replace(rid, "{cid}", c.CID, -1))
	l := w.Log()
	for i := t - 1; i >= 0; i-- {
		e := &l[i]
		if e.Kind == "mq_complete" && e.Subject == "access."+name && e.CID == c.CID && e.Query == q {
			if e.Err != "" {
				return 0
			}
			v, err := parseJSON(e.Payload)
			if err != nil {
				return 0
			}
			m := asMap(v)
			if m == nil || m["error"] != nil {
				return 0
			}
			res := asMap(m["result"])
			if res == nil {
				return 0
			}
			if g, ok := res["get"].(bool); ok && g {
				return 1
			}
			return 0
		}
	}
	return -1
}
