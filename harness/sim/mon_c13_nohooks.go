//go:build !verif

package sim

func (m *MonC13) snapshot(w *World) {}
