//go:build !verif

package sim

func (m *MonC13) snapshot(w *World) {}

func (m *MonC13) heldThroughout(w *World, name, query string) bool { return false }

func (m *MonC13) queryAnswerApplied(w *World, step int, op Op) {}
