package sim

import (
	"bytes"
	"encoding/json"
	"fmt"
	"reflect"
	"sort"
	"strings"
)

// RefClient is the reference RES client (DESIGN.md 3.1): it processes the
// frames of one connection in order, keeps what a protocol-following client
// keeps (reachability from direct subscriptions over non-soft references) and
// asserts applicability of every message.

type CRes struct {
	Type    byte // 'm','c','e'
	Model   map[string]interface{}
	Coll    []interface{}
	Err     interface{}
	Deleted bool
	Episode int
	HandedT int // log time of the frame that handed it
}

type ClientReq struct {
	ID         uint64
	Method     string // full method string
	Action     string // subscribe|unsubscribe|get|call|auth|new|version|""
	RID        string
	CMethod    string // call/auth method
	Params     string
	Count      int  // unsubscribe count (as the gateway must read it), 0 = invalid
	BadCnt     bool // count parameter invalid
	SentT      int
	SentStep   int
	Resp       int // number of responses seen
	RespT      int
	Result     interface{}
	Error      *FrameError
	IsError    bool
	Dup        bool // id reused while still outstanding
	WellFormed bool
	ResRID     string // rid of a resource response
	ResRootErr bool   // the root of the resource response is an error entry
	ResDenied  bool   // ... because access to it was denied
	Optional   bool   // a response is allowed but not required (outside C07's precondition)
}

type FrameError struct {
	Code    string
	Message string
	CodeOK  bool
	MsgOK   bool
}

type CViolation struct {
	Prop  string
	Class string
	Msg   string
	T     int
	RID   string
	Other string
}

// EventRec records one event frame for the ordering monitor (C03).
type EventRec struct {
	RID     string
	Episode int
	Event   string
	Data    interface{}
	T       int
	Held    bool
}

type RefClient struct {
	Idx      int
	Ver      int
	Held     map[string]*CRes
	Direct   map[string]int
	Reqs     map[uint64]*ClientReq
	ReqOrder []uint64
	Viol     []CViolation
	Events   []EventRec
	episode  int
	Closed   bool // EOF seen

	// counters for classification
	RedundantResend     int
	ResendDiffers       int
	DroppedWhileLoading int
	Frames              int
	LastResp            *ClientReq // request answered by the most recent frame (nil for events)
	curRID              string     // resource the frame being processed is about
	Handovers           []Handover
	DropLog             []DropRec
	AmbigDirect         map[string]bool // rids whose direct count the frames do not determine
	// Handovers: rid -> list of T at which the rid was (re)handed
	Dropped map[string]int
	// UnsubEvents: rid -> count of unsubscribe events
	UnsubEvents map[string]int
	// log of direct-count relevant happenings for C08
	DirectLog []DirectRec
}

// DropRec records that the client dropped a resource after the frame at T.
type DropRec struct {
	RID   string
	T     int
	Cause string   // action of the response, or "event", whose processing made the client drop it
	Refs  []string // the resources it referenced (non-soft) when it was dropped
}

// Handover records that a frame carried data (or an error) for a rid.
type Handover struct {
	T       int
	RID     string
	Req     *ClientReq // response that carried it (nil: event)
	Fresh   bool       // the client did not hold it before
	IsErr   bool       // handed as an error placeholder
	Differs bool       // the client already held it and the content in this frame differs from its copy
}

type DirectRec struct {
	T     int
	RID   string
	Kind  string // "sub+", "unsub-", "unsubev", "res+"
	Count int
	After int
}

func newRefClient(idx int) *RefClient {
	return &RefClient{Idx: idx, Ver: verLegacy, Held: map[string]*CRes{}, Direct: map[string]int{},
		AmbigDirect: map[string]bool{}, Reqs: map[uint64]*ClientReq{}, Dropped: map[string]int{}, UnsubEvents: map[string]int{}}
}

func (c *RefClient) viol(prop, class string, t int, format string, a ...interface{}) {
	c.Viol = append(c.Viol, CViolation{Prop: prop, Class: class, Msg: fmt.Sprintf("c%d: ", c.Idx) + fmt.Sprintf(format, a...), T: t, RID: c.curRID})
}

func parseJSON(b []byte) (interface{}, error) {
	d := json.NewDecoder(bytes.NewReader(b))
	d.UseNumber()
	var v interface{}
	if err := d.Decode(&v); err != nil {
		return nil, err
	}
	// trailing data?
	if d.More() {
		return nil, fmt.Errorf("trailing data")
	}
	return v, nil
}

func mustParse(s string) interface{} {
	v, err := parseJSON([]byte(s))
	if err != nil {
		panic("mustParse: " + s + ": " + err.Error())
	}
	return v
}

// parseMethod splits a client method string the way the protocol defines it.
func parseMethod(m string) (action, rid, method string) {
	i := strings.IndexByte(m, '.')
	if i < 0 {
		return m, "", ""
	}
	action = m[:i]
	rid = m[i+1:]
	if action == "call" || action == "auth" {
		j := strings.LastIndexByte(rid, '.')
		if j < 0 {
			return action, rid, ""
		}
		method = rid[j+1:]
		rid = rid[:j]
	}
	return
}

// NoteRequest records a request the client sent.
func (c *RefClient) NoteRequest(id uint64, method, params string, t, step int) {
	r := &ClientReq{ID: id, Method: method, Params: params, SentT: t, SentStep: step, WellFormed: true}
	r.Action, r.RID, r.CMethod = parseMethod(method)
	if old, ok := c.Reqs[id]; ok {
		r.Dup = true
		_ = old
	}
	if r.Action == "unsubscribe" {
		r.Count = 1
		if params != "" && params != "null" {
			var p struct {
				Count *json.Number `json:"count"`
			}
			pv, err := parseJSON([]byte(params))
			if err != nil {
				r.BadCnt = true
			} else if m, ok := pv.(map[string]interface{}); ok {
				_ = p
				if cv, has := m["count"]; has && cv != nil {
					n, isNum := cv.(json.Number)
					if !isNum {
						r.BadCnt = true
					} else if i, err := n.Int64(); err != nil || strings.ContainsAny(n.String(), ".eE") {
						r.BadCnt = true
					} else if i <= 0 {
						r.BadCnt = true
					} else {
						r.Count = int(i)
					}
				}
			} else {
				// params that is not an object: json.Unmarshal into struct fails
				r.BadCnt = true
			}
		}
	}
	if r.Action == "version" && params != "" {
		// version is applied by the gateway when the request is processed; the
		// response confirms it. We set it on the success response.
	}
	c.Reqs[id] = r
	c.ReqOrder = append(c.ReqOrder, id)
}

// isRef is how a client of this connection's protocol version reads a value:
// below 1.2.1 there are no soft references or data values, so any object with
// a rid is a resource reference (the gateway sends such clients soft
// references as plain strings and data values as a placeholder).
func (c *RefClient) isRef(v interface{}) (string, bool) {
	if c.Ver < verSoftData {
		if m, ok := v.(map[string]interface{}); ok {
			if rid, ok := m["rid"].(string); ok {
				return rid, true
			}
		}
		return "", false
	}
	return isRef(v)
}

func isRef(v interface{}) (string, bool) {
	m, ok := v.(map[string]interface{})
	if !ok {
		return "", false
	}
	rid, ok := m["rid"].(string)
	if !ok {
		return "", false
	}
	if s, ok := m["soft"].(bool); ok && s {
		return "", false
	}
	if _, ok := m["data"]; ok {
		return "", false
	}
	return rid, true
}

func isDeleteAction(v interface{}) bool {
	m, ok := v.(map[string]interface{})
	if !ok {
		return false
	}
	a, ok := m["action"].(string)
	return ok && a == "delete" && len(m) == 1
}

// addResources adds the resources of a resource set that are not held yet.
func (c *RefClient) addResources(set map[string]interface{}, t int) {
	add := func(kind string, typ byte) {
		rs, ok := set[kind].(map[string]interface{})
		if !ok {
			if set[kind] != nil {
				c.viol("C02", "malformed_set", t, "resource set %s is not an object", kind)
			}
			return
		}
		for rid, data := range rs {
			_, heldBefore := c.Held[rid]
			c.Handovers = append(c.Handovers, Handover{T: t, RID: rid, Req: c.LastResp, Fresh: !heldBefore, IsErr: typ == 'e'})
			if old, held := c.Held[rid]; held {
				c.RedundantResend++
				nr := makeRes(typ, data)
				if nr == nil || !resEqual(old, nr) {
					c.ResendDiffers++
					c.Handovers[len(c.Handovers)-1].Differs = true
				}
				continue
			}
			r := makeRes(typ, data)
			if r == nil {
				c.viol("C02", "malformed_resource", t, "resource %s in %s has wrong JSON type", rid, kind)
				continue
			}
			c.episode++
			r.Episode = c.episode
			r.HandedT = t
			c.Held[rid] = r
		}
	}
	add("models", 'm')
	add("collections", 'c')
	add("errors", 'e')
}

func makeRes(typ byte, data interface{}) *CRes {
	switch typ {
	case 'm':
		m, ok := data.(map[string]interface{})
		if !ok {
			return nil
		}
		cp := make(map[string]interface{}, len(m))
		for k, v := range m {
			cp[k] = v
		}
		return &CRes{Type: 'm', Model: cp}
	case 'c':
		a, ok := data.([]interface{})
		if !ok {
			return nil
		}
		return &CRes{Type: 'c', Coll: append([]interface{}(nil), a...)}
	case 'e':
		return &CRes{Type: 'e', Err: data}
	}
	return nil
}

func resEqual(a, b *CRes) bool {
	if a.Type != b.Type {
		return false
	}
	switch a.Type {
	case 'm':
		return reflect.DeepEqual(a.Model, b.Model)
	case 'c':
		if len(a.Coll) == 0 && len(b.Coll) == 0 {
			return true
		}
		return reflect.DeepEqual(a.Coll, b.Coll)
	}
	return true
}

// gc drops everything not reachable from direct subscriptions.
func (c *RefClient) gc(t int) {
	reach := map[string]bool{}
	var stack []string
	for rid, n := range c.Direct {
		if n > 0 {
			if _, ok := c.Held[rid]; ok {
				reach[rid] = true
				stack = append(stack, rid)
			}
		}
	}
	for len(stack) > 0 {
		rid := stack[len(stack)-1]
		stack = stack[:len(stack)-1]
		r := c.Held[rid]
		visit := func(v interface{}) {
			if ref, ok := c.isRef(v); ok {
				if _, held := c.Held[ref]; held && !reach[ref] {
					reach[ref] = true
					stack = append(stack, ref)
				}
			}
		}
		switch r.Type {
		case 'm':
			for _, v := range r.Model {
				visit(v)
			}
		case 'c':
			for _, v := range r.Coll {
				visit(v)
			}
		}
	}
	for rid := range c.Held {
		if !reach[rid] {
			var refs []string
			if r := c.Held[rid]; r != nil {
				for _, v := range r.Model {
					if ref, ok := c.isRef(v); ok {
						refs = append(refs, ref)
					}
				}
				for _, v := range r.Coll {
					if ref, ok := c.isRef(v); ok {
						refs = append(refs, ref)
					}
				}
				sort.Strings(refs)
			}
			delete(c.Held, rid)
			c.Dropped[rid]++
			cause := "event"
			if c.LastResp != nil {
				cause = c.LastResp.Action
			}
			c.DropLog = append(c.DropLog, DropRec{RID: rid, T: t, Cause: cause, Refs: refs})
		}
	}
}

// checkDangling asserts that every non-soft reference of a held resource points to a held resource.
func (c *RefClient) checkDangling(t int) {
	rids := make([]string, 0, len(c.Held))
	for rid := range c.Held {
		rids = append(rids, rid)
	}
	sort.Strings(rids)
	for _, rid := range rids {
		r := c.Held[rid]
		chk := func(v interface{}) {
			if ref, ok := c.isRef(v); ok {
				if _, held := c.Held[ref]; !held {
					c.viol("C02", "dangling_reference", t, "after frame at t=%d resource %s references %s for which the client has neither data nor error", t, rid, ref)
					c.Viol[len(c.Viol)-1].Other = ref
					c.Viol[len(c.Viol)-1].RID = rid
				}
			}
		}
		switch r.Type {
		case 'm':
			for _, v := range r.Model {
				chk(v)
			}
		case 'c':
			for _, v := range r.Coll {
				chk(v)
			}
		}
	}
}

func asMap(v interface{}) map[string]interface{} {
	m, _ := v.(map[string]interface{})
	return m
}

// Frame processes one frame received from the gateway.
func (c *RefClient) Frame(raw []byte, t int) {
	c.Frames++
	c.LastResp = nil
	c.curRID = ""
	v, err := parseJSON(raw)
	if err != nil {
		c.viol("C15", "malformed_frame", t, "frame is not valid JSON: %q", raw)
		return
	}
	f := asMap(v)
	if f == nil {
		c.viol("C15", "malformed_frame", t, "frame is not an object: %q", raw)
		return
	}
	if idv, ok := f["id"]; ok {
		c.response(f, idv, raw, t)
	} else if ev, ok := f["event"].(string); ok {
		c.event(ev, f["data"], t)
	} else {
		c.viol("C07", "unknown_frame", t, "frame is neither response nor event: %q", raw)
		return
	}
	c.gc(t)
	c.checkDangling(t)
}

func (c *RefClient) response(f map[string]interface{}, idv interface{}, raw []byte, t int) {
	n, ok := idv.(json.Number)
	if !ok {
		c.viol("C07", "unknown_response", t, "response with non-numeric id: %q", raw)
		return
	}
	var id uint64
	if _, err := fmt.Sscan(n.String(), &id); err != nil {
		c.viol("C07", "unknown_response", t, "response with bad id: %q", raw)
		return
	}
	r, ok := c.Reqs[id]
	if !ok {
		c.viol("C07", "unknown_response", t, "response for id %d that was never requested: %q", id, raw)
		return
	}
	r.Resp++
	if r.Resp > 1 && !r.Dup {
		c.viol("C07", "duplicate_response", t, "second response for id %d (%s): %q", id, r.Method, raw)
		return
	}
	r.RespT = t
	c.LastResp = r
	c.curRID = r.RID
	if e, has := f["error"]; has && e != nil {
		r.IsError = true
		fe := &FrameError{}
		if em := asMap(e); em != nil {
			fe.Code, fe.CodeOK = em["code"].(string)
			fe.Message, fe.MsgOK = em["message"].(string)
		}
		r.Error = fe
		if !fe.CodeOK || !fe.MsgOK {
			c.viol("C07", "bad_error_object", t, "error response for id %d lacks string code/message: %q", id, raw)
		}
		return
	}
	res := f["result"]
	r.Result = res
	switch r.Action {
	case "version":
		c.applyVersion(r)
	case "subscribe":
		rm := asMap(res)
		if rm != nil {
			c.addResources(rm, t)
		}
		c.Direct[r.RID]++
		c.DirectLog = append(c.DirectLog, DirectRec{T: t, RID: r.RID, Kind: "sub+", Count: 1, After: c.Direct[r.RID]})
		if _, held := c.Held[r.RID]; !held {
			c.viol("C02", "subscribe_without_data", t, "successful subscribe #%d to %s leaves the client without data for it", id, r.RID)
		}
	case "get":
		rm := asMap(res)
		if rm != nil {
			had := c.Held[r.RID] != nil
			c.addResources(rm, t)
			if _, held := c.Held[r.RID]; !held && !had {
				c.viol("C02", "get_without_data", t, "successful get #%d of %s carries no data for it", id, r.RID)
			}
		}
	case "unsubscribe":
		cnt := r.Count
		if cnt <= 0 {
			cnt = 1
		}
		c.Direct[r.RID] -= cnt
		c.DirectLog = append(c.DirectLog, DirectRec{T: t, RID: r.RID, Kind: "unsub-", Count: cnt, After: c.Direct[r.RID]})
	case "call", "auth", "new":
		rm := asMap(res)
		if rm == nil {
			return
		}
		if c.Ver < verCallRes && r.Action != "new" {
			// legacy: raw result or {rid} without subscription
			return
		}
		rid, isRes := rm["rid"].(string)
		_, hasPayload := rm["payload"]
		if isRes && !hasPayload {
			c.addResources(rm, t)
			c.Direct[rid]++
			r.ResRID = rid
			if em := asMap(rm["errors"]); em != nil {
				if _, isErr := em[rid]; isErr {
					r.ResRootErr = true
				}
			}
			c.DirectLog = append(c.DirectLog, DirectRec{T: t, RID: rid, Kind: "res+", Count: 1, After: c.Direct[rid]})
			if _, held := c.Held[rid]; !held {
				c.viol("C02", "resource_response_without_data", t, "resource response #%d for %s leaves the client without data or error for it", id, rid)
				c.Viol[len(c.Viol)-1].RID = rid // the resource named by the response, not the one called
			}
		}
	}
}

func (c *RefClient) applyVersion(r *ClientReq) {
	if r.Params == "" || r.Params == "null" {
		return
	}
	var p struct {
		Protocol string `json:"protocol"`
	}
	if json.Unmarshal([]byte(r.Params), &p) != nil || p.Protocol == "" {
		return
	}
	parts := strings.Split(p.Protocol, ".")
	if len(parts) != 3 {
		return
	}
	v := 0
	for _, s := range parts {
		var n int
		if _, err := fmt.Sscanf(s, "%d", &n); err != nil {
			return
		}
		v = v*1000 + n
	}
	c.Ver = v
}

func (c *RefClient) event(ev string, data interface{}, t int) {
	i := strings.LastIndexByte(ev, '.')
	if i < 0 {
		c.viol("C02", "malformed_event", t, "event name %q has no resource id", ev)
		return
	}
	rid, name := ev[:i], ev[i+1:]
	c.curRID = rid
	r, held := c.Held[rid]
	rec := EventRec{RID: rid, Event: name, Data: data, T: t, Held: held}
	if held {
		rec.Episode = r.Episode
	}
	c.Events = append(c.Events, rec)
	if name == "unsubscribe" {
		c.UnsubEvents[rid]++
		before := c.Direct[rid]
		c.Direct[rid] = 0
		c.DirectLog = append(c.DirectLog, DirectRec{T: t, RID: rid, Kind: "unsubev", Count: before, After: 0})
		if before == 0 {
			c.viol("C08", "unsubscribe_event_without_direct", t, "unsubscribe event for %s while the client has no direct subscription", rid)
		}
		return
	}
	if !held {
		c.viol("C02", "stray_event", t, "event %s for resource %s which the client does not hold", name, rid)
		return
	}
	dm := asMap(data)
	switch name {
	case "change":
		if r.Type != 'm' {
			c.viol("C02", "wrong_kind_event", t, "change event on non-model %s", rid)
			return
		}
		if dm == nil {
			c.viol("C02", "malformed_event", t, "change event for %s without data object", rid)
			return
		}
		c.addResources(dm, t)
		vals := asMap(dm["values"])
		if vals == nil {
			c.viol("C02", "malformed_event", t, "change event for %s without values", rid)
			return
		}
		if r.Deleted {
			return
		}
		for k, v := range vals {
			if isDeleteAction(v) {
				delete(r.Model, k)
			} else {
				r.Model[k] = v
			}
		}
	case "add":
		if r.Type != 'c' {
			c.viol("C02", "wrong_kind_event", t, "add event on non-collection %s", rid)
			return
		}
		if dm == nil {
			c.viol("C02", "malformed_event", t, "add event for %s without data object", rid)
			return
		}
		c.addResources(dm, t)
		idxn, ok := dm["idx"].(json.Number)
		if !ok {
			c.viol("C02", "malformed_event", t, "add event for %s without idx", rid)
			return
		}
		idx64, _ := idxn.Int64()
		idx := int(idx64)
		if idx < 0 || idx > len(r.Coll) {
			c.viol("C02", "index_out_of_bounds", t, "add event for %s idx %d outside [0,%d]", rid, idx, len(r.Coll))
			return
		}
		val, has := dm["value"]
		if !has {
			c.viol("C02", "malformed_event", t, "add event for %s without value", rid)
			return
		}
		nc := make([]interface{}, 0, len(r.Coll)+1)
		nc = append(nc, r.Coll[:idx]...)
		nc = append(nc, val)
		nc = append(nc, r.Coll[idx:]...)
		r.Coll = nc
	case "remove":
		if r.Type != 'c' {
			c.viol("C02", "wrong_kind_event", t, "remove event on non-collection %s", rid)
			return
		}
		if dm == nil {
			c.viol("C02", "malformed_event", t, "remove event for %s without data object", rid)
			return
		}
		idxn, ok := dm["idx"].(json.Number)
		if !ok {
			c.viol("C02", "malformed_event", t, "remove event for %s without idx", rid)
			return
		}
		idx64, _ := idxn.Int64()
		idx := int(idx64)
		if idx < 0 || idx >= len(r.Coll) {
			c.viol("C02", "index_out_of_bounds", t, "remove event for %s idx %d outside [0,%d)", rid, idx, len(r.Coll))
			return
		}
		nc := make([]interface{}, 0, len(r.Coll))
		nc = append(nc, r.Coll[:idx]...)
		nc = append(nc, r.Coll[idx+1:]...)
		r.Coll = nc
	case "delete":
		r.Deleted = true
	default:
		// custom event: nothing to apply
	}
}

// HeldRIDs returns the sorted held resource ids.
func (c *RefClient) HeldRIDs() []string {
	r := make([]string, 0, len(c.Held))
	for k := range c.Held {
		r = append(r, k)
	}
	sort.Strings(r)
	return r
}

// Outstanding returns the ids of requests without a response.
func (c *RefClient) Outstanding() []uint64 {
	var r []uint64
	for _, id := range c.ReqOrder {
		if q := c.Reqs[id]; q != nil && q.Resp == 0 {
			r = append(r, id)
		}
	}
	return r
}

// Refs returns the resource ids the resource references (hard references only).
func (r *CRes) Refs() []string {
	var out []string
	for _, v := range r.Model {
		if rid, ok := isRef(v); ok {
			out = append(out, rid)
		}
	}
	for _, v := range r.Coll {
		if rid, ok := isRef(v); ok {
			out = append(out, rid)
		}
	}
	sort.Strings(out)
	return out
}
