package sim

import (
	"bytes"
	"encoding/json"
	"fmt"
	"reflect"
	"sort"
	"strings"
)

// ---------------------------------------------------------------------------
// C01: convergence at end of history

type MonC01 struct {
	baseMon
	outOfOrder  bool
	stateEvHeld int
	shared      bool
	refChange   bool
	derived     bool
	lastReqSeq  int
}

func NewMonC01() *MonC01 { m := &MonC01{}; m.init("C01"); return m }

func (m *MonC01) OnLog(w *World, e *LogEntry) {
	switch e.Kind {
	case "mq_complete":
		// answered out of request order?
		if e.Req < m.lastReqSeq {
			m.outOfOrder = true
		}
		if e.Req > m.lastReqSeq {
			m.lastReqSeq = e.Req
		}
		if strings.HasPrefix(e.Subject, "_EVQ.") {
			m.derived = true
		}
	case "mq_ev":
		if strings.HasPrefix(e.Subject, "event.") {
			i := strings.LastIndexByte(e.Subject, '.')
			name, ev := e.Subject[6:i], e.Subject[i+1:]
			if ev == "change" || ev == "add" || ev == "remove" {
				holders := 0
				for _, c := range w.Clients {
					for rid := range c.Ref.Held {
						n, _ := splitRID(strings.Replace(rid, "{cid}", c.CID, -1))
						if n == name {
							holders++
							break
						}
					}
				}
				if holders > 0 {
					m.stateEvHeld++
				}
				if holders > 1 {
					m.shared = true
				}
				if strings.Contains(string(e.Payload), `"rid"`) {
					m.refChange = true
				}
			}
		} else if e.Subject == "system.reset" {
			m.derived = true
		}
	}
}

// expectedFor returns the announced state of the variant behind a client rid,
// encoded for the client's protocol version. ok=false if there is no basis for comparison.
func (w *World) expectedFor(c *Client, rid string) (typ byte, model map[string]interface{}, coll []interface{}, ok bool) {
	name, q := splitRID(strings.Replace(rid, "{cid}", c.CID, -1))
	d := w.Svc.defFor(name, w.CIDs())
	if d == nil {
		return
	}
	norm, okq := d.Norm(q)
	if !okq {
		return
	}
	v := w.Svc.lookupVariant(name, norm)
	if v == nil {
		return
	}
	ver := c.Ref.Ver
	if v.Type == 'm' {
		if v.AModel == nil {
			return
		}
		model = map[string]interface{}{}
		for k, x := range v.AModel {
			model[k] = mustParse(x.ClientJSON(ver))
		}
		return 'm', model, nil, true
	}
	if v.AColl == nil {
		return
	}
	coll = make([]interface{}, 0, len(v.AColl))
	for _, x := range v.AColl {
		coll = append(coll, mustParse(x.ClientJSON(ver)))
	}
	return 'c', nil, coll, true
}

func jsonOf(v interface{}) string {
	b, _ := json.Marshal(v)
	return string(b)
}

func (m *MonC01) OnEnd(w *World) []Violation {
	var vs []Violation
	if w.mq.PendingCount() > 0 {
		m.class("pending_at_end_skip")
		return nil
	}
	for _, c := range w.Clients {
		if !c.Dialed || c.EOF || c.Closed {
			continue
		}
		for _, rid := range c.Ref.HeldRIDs() {
			r := c.Ref.Held[rid]
			if r.Type == 'e' {
				m.class("held_error_placeholder")
				continue
			}
			if r.Deleted {
				m.class("held_deleted_frozen")
				continue
			}
			typ, em, ec, ok := w.expectedFor(c, rid)
			if !ok {
				m.class("held_no_basis")
				continue
			}
			m.class("held_compared")
			same := typ == r.Type
			if same {
				if typ == 'm' {
					same = reflect.DeepEqual(em, r.Model) || (len(em) == 0 && len(r.Model) == 0)
				} else {
					same = (len(ec) == 0 && len(r.Coll) == 0) || reflect.DeepEqual(ec, r.Coll)
				}
			}
			if !same {
				var exp, got string
				if typ == 'm' {
					exp = jsonOf(em)
				} else {
					exp = jsonOf(ec)
				}
				if r.Type == 'm' {
					got = jsonOf(r.Model)
				} else {
					got = jsonOf(r.Coll)
				}
				vs = append(vs, Violation{Property: "C01", Class: "diverged", Step: w.step, Conn: c.Idx, RID: rid, T: r.HandedT,
					Message: fmt.Sprintf("c%d (protocol %d): at quiescence the client's copy of %s is %s but the service last announced %s", c.Idx, c.Ref.Ver, rid, got, exp)})
			}
		}
	}
	if m.stateEvHeld > 0 {
		m.class("state_event_while_held")
	}
	if m.stateEvHeld > 0 && (m.outOfOrder || m.refChange || m.derived || m.shared) {
		m.nontriv = true
	}
	if m.outOfOrder {
		m.class("answers_out_of_order")
	}
	if m.refChange {
		m.class("reference_changed")
	}
	if m.derived {
		m.class("derived_events")
	}
	if m.shared {
		m.class("shared_resource_event")
	}
	return append(vs, m.viols...)
}

// ---------------------------------------------------------------------------
// C02: applicability of every message

type MonC02 struct {
	baseMon
}

func NewMonC02() *MonC02 { m := &MonC02{}; m.init("C02"); return m }

func (m *MonC02) OnEnd(w *World) []Violation {
	vs := clientViolations(w, "C02")
	for _, c := range w.Clients {
		// non-trivial: a resource was dropped while another load referencing it was
		// in progress, or a re-handover happened, or an event added a reference to an
		// already held resource
		drops := 0
		for _, n := range c.Ref.Dropped {
			drops += n
		}
		if drops > 0 {
			m.class("client_dropped_resource")
		}
		rehand := false
		seen := map[string]int{}
		for _, h := range c.Ref.Handovers {
			if h.Fresh {
				seen[h.RID]++
				if seen[h.RID] > 1 {
					rehand = true
				}
			}
			if !h.Fresh {
				m.class("redundant_resend")
			}
		}
		if rehand {
			m.class("resource_handed_again_after_drop")
			m.nontriv = true
		}
		for _, ev := range c.Ref.Events {
			if (ev.Event == "change" || ev.Event == "add") && ev.Held && strings.Contains(jsonOf(ev.Data), `"rid"`) {
				m.class("event_with_reference")
				if drops > 0 {
					m.nontriv = true
				}
			}
		}
		if unsendShape(c) {
			m.class("dropped_while_parent_loading")
			m.nontriv = true
		}
	}
	return append(vs, m.viols...)
}

// unsendShape: the client dropped a rid while a request sent earlier was still
// outstanding, and that request's response later carried the rid again.
func unsendShape(c *Client) bool {
	for _, h := range c.Ref.Handovers {
		if !h.Fresh || h.Req == nil {
			continue
		}
		for _, d := range c.Ref.DropLog {
			if d.RID == h.RID && h.Req.SentT < d.T && d.T < h.T {
				return true
			}
		}
	}
	return false
}

// ---------------------------------------------------------------------------
// C03: ordered, gap-free, duplicate-free events per resource

type MonC03 struct {
	baseMon
	delivered  map[string][]int // resource name -> custom seqs delivered to the gateway, in order
	deliveredT map[string][]int
}

func NewMonC03() *MonC03 {
	m := &MonC03{delivered: map[string][]int{}, deliveredT: map[string][]int{}}
	m.init("C03")
	return m
}

func customSeq(payload []byte) (string, int, bool) {
	var p struct {
		Res string `json:"res"`
		Seq *int   `json:"seq"`
	}
	if json.Unmarshal(payload, &p) != nil || p.Seq == nil {
		return "", 0, false
	}
	return p.Res, *p.Seq, true
}

func (m *MonC03) OnLog(w *World, e *LogEntry) {
	if e.Kind == "mq_ev" && strings.HasPrefix(e.Subject, "event.") {
		if res, seq, ok := customSeq(e.Payload); ok {
			m.delivered[res] = append(m.delivered[res], seq)
			m.deliveredT[res] = append(m.deliveredT[res], e.T)
		}
	}
}

func (m *MonC03) OnEnd(w *World) []Violation {
	var vs []Violation
	for _, c := range w.Clients {
		// group custom events per rid+episode
		type ep struct {
			rid  string
			ep   int
			seqs []int
			ts   []int
		}
		eps := map[string]*ep{}
		var order []string
		var lastChange = map[string]string{}
		for _, ev := range c.Ref.Events {
			if !ev.Held {
				// an event for a resource the client does not hold is C02's business
				// (stray), unless the same step goes on to hand that resource over:
				// then the event overtook the frame that first hands it to the client
				if ev.Event != "unsubscribe" {
					reported := false
					for _, h := range c.Ref.Handovers {
						if h.RID == ev.RID && h.Fresh && !h.IsErr && h.T > ev.T && w.stepOfT(h.T) == w.stepOfT(ev.T) {
							vs = append(vs, Violation{Property: "C03", Class: "event_before_handover", Conn: c.Idx, RID: ev.RID, T: ev.T, Step: w.stepOfT(ev.T),
								Message: fmt.Sprintf("c%d: %s event for %s delivered at t=%d, before the frame that hands %s to the client (t=%d)", c.Idx, ev.Event, ev.RID, ev.T, ev.RID, h.T)})
							reported = true
							break
						}
					}
					// ... or the resource was never handed to the client at all (an event
					// for a resource the client held and dropped is C02's stray event)
					ever := false
					for _, h := range c.Ref.Handovers {
						if h.RID == ev.RID && h.T < ev.T && !(h.Req != nil && h.Req.Action == "get") {
							ever = true
							break
						}
					}
					if !reported && !ever && !frameCarried(w, c, ev.RID, ev.T) {
						vs = append(vs, Violation{Property: "C03", Class: "event_before_handover", Conn: c.Idx, RID: ev.RID, T: ev.T, Step: w.stepOfT(ev.T),
							Message: fmt.Sprintf("c%d: %s event for %s delivered at t=%d although no response or event has ever handed %s to the client", c.Idx, ev.Event, ev.RID, ev.T, ev.RID)})
					}
				}
				continue
			}
			k := fmt.Sprintf("%s#%d", ev.RID, ev.Episode)
			if ev.Event == "change" {
				js := jsonOf(asMap(ev.Data)["values"])
				if lastChange[k] == js && js != "null" && c.Ref.Ver >= verSoftData {
					vs = append(vs, Violation{Property: "C03", Class: "duplicate_state_event", Conn: c.Idx, RID: ev.RID, T: ev.T, Step: w.stepOfT(ev.T),
						Message: fmt.Sprintf("c%d: change event %s for %s delivered twice in a row", c.Idx, js, ev.RID)})
				}
				lastChange[k] = js
				continue
			}
			if ev.Event == "add" || ev.Event == "remove" {
				lastChange[k] = ""
				continue
			}
			dm := asMap(ev.Data)
			if dm == nil {
				continue
			}
			sn, ok := dm["seq"].(json.Number)
			if !ok {
				continue
			}
			seq64, _ := sn.Int64()
			e := eps[k]
			if e == nil {
				e = &ep{rid: ev.RID, ep: ev.Episode}
				eps[k] = e
				order = append(order, k)
			}
			e.seqs = append(e.seqs, int(seq64))
			e.ts = append(e.ts, ev.T)
		}
		sort.Strings(order)
		for _, k := range order {
			e := eps[k]
			name, _ := splitRID(strings.Replace(e.rid, "{cid}", c.CID, -1))
			del := m.delivered[name]
			// the episode's seqs must be a contiguous run of the delivered list
			pos := -1
			for i, s := range del {
				if s == e.seqs[0] {
					pos = i
					break
				}
			}
			if len(e.seqs) >= 2 {
				m.class("episode_with_multiple_customs")
			}
			bad := ""
			if pos < 0 {
				bad = fmt.Sprintf("custom event seq %d was never delivered to the gateway", e.seqs[0])
			} else {
				for i, s := range e.seqs {
					if pos+i >= len(del) || del[pos+i] != s {
						exp := "none"
						if pos+i < len(del) {
							exp = fmt.Sprint(del[pos+i])
						}
						bad = fmt.Sprintf("custom events arrived as %v; after seq %v the next delivered to the gateway was %s (delivered: %v)", e.seqs, e.seqs[:i], exp, del)
						break
					}
				}
			}
			if bad != "" {
				vs = append(vs, Violation{Property: "C03", Class: "order_gap_or_duplicate", Conn: c.Idx, RID: e.rid, T: e.ts[0], Step: w.stepOfT(e.ts[0]),
					Message: fmt.Sprintf("c%d: events for %s out of order / gap / duplicate: %s", c.Idx, e.rid, bad)})
				continue
			}
			// tail completeness for the episode still open at the end
			if r, held := c.Ref.Held[e.rid]; held && r.Episode == e.ep && !r.Deleted && c.Dialed && !c.EOF && !c.Closed && w.mq.PendingCount() == 0 {
				last := pos + len(e.seqs) - 1
				if last != len(del)-1 {
					vs = append(vs, Violation{Property: "C03", Class: "tail_missing", Conn: c.Idx, RID: e.rid, T: e.ts[len(e.ts)-1], Step: w.step,
						Message: fmt.Sprintf("c%d: holds %s and received custom events %v, but events up to seq %d were delivered to the gateway: later events were skipped", c.Idx, e.rid, e.seqs, del[len(del)-1])})
				}
				m.class("tail_checked")
			}
		}
		// ... and for held resources that have received no custom event at all in
		// their current episode: every custom event that reached the gateway after
		// the frame that handed the resource over is owed to the client
		if c.Dialed && !c.EOF && !c.Closed && w.mq.PendingCount() == 0 {
			for _, rid := range c.Ref.HeldRIDs() {
				r := c.Ref.Held[rid]
				if r.Deleted || r.Type == 'e' || strings.Contains(rid, "?") {
					continue
				}
				if _, has := eps[fmt.Sprintf("%s#%d", rid, r.Episode)]; has {
					continue
				}
				name, _ := splitRID(strings.Replace(rid, "{cid}", c.CID, -1))
				var owed []int
				for i, t := range m.deliveredT[name] {
					if t > r.HandedT {
						owed = append(owed, m.delivered[name][i])
					}
				}
				if len(owed) > 0 {
					m.class("silent_holder_checked")
					vs = append(vs, Violation{Property: "C03", Class: "tail_missing", Conn: c.Idx, RID: rid, T: r.HandedT, Step: w.step,
						Message: fmt.Sprintf("c%d: holds %s (handed over at t=%d) and has received none of its custom events, but events seq %v reached the gateway after that: they were skipped", c.Idx, rid, r.HandedT, owed)})
				}
			}
		}
		// queue/unqueue cycles: episodes in which events arrived after >=2 frames carrying resources
		if len(eps) > 0 {
			m.class("episodes_with_customs")
		}
		for _, e := range eps {
			if len(e.seqs) >= 3 {
				m.nontriv = true
			}
		}
	}
	return append(vs, m.viols...)
}

// frameCarried reports whether some frame sent to the client before log time t
// carried data (or an error) for the rid in a resource set - also a frame the
// reference client did not take resources from (the set of an event for a
// resource it had dropped).
func frameCarried(w *World, c *Client, rid string, t int) bool {
	for _, e := range w.Log() {
		if e.T >= t {
			break
		}
		if e.Kind != "frame" || e.Conn != c.Idx || !bytes.Contains(e.Payload, []byte(jstr(rid)+":")) {
			continue
		}
		var f struct {
			ID     *uint64                    `json:"id"`
			Result map[string]json.RawMessage `json:"result"`
			Data   map[string]json.RawMessage `json:"data"`
		}
		if json.Unmarshal(e.Payload, &f) != nil {
			continue
		}
		if f.ID != nil {
			// the response to a get request shows resources, it does not hand them over
			if r := c.Ref.Reqs[*f.ID]; r != nil && r.Action == "get" {
				continue
			}
		}
		for _, set := range []map[string]json.RawMessage{f.Result, f.Data} {
			for _, kind := range []string{"models", "collections", "errors"} {
				var m map[string]json.RawMessage
				if json.Unmarshal(set[kind], &m) == nil {
					if _, ok := m[rid]; ok {
						return true
					}
				}
			}
		}
	}
	return false
}
