package sim

import (
	"fmt"
	"strings"
	"time"
)

// ---------------------------------------------------------------------------
// C09: cache entry lifecycle (trace invariants on the boundary log + end state)

type MonC09 struct {
	baseMon
	live        map[string]int // event namespace -> log time of the live subscription (0 = none)
	lastGetOK   map[string]int // name -> log time of the last successful get answer
	interrupted map[string]bool
	pendingFor  map[string]int // name -> pending mq requests
	reqName     map[int]string
	zeroAndBack bool
	reqOutlived bool
	subCount    map[string]int
	EndChecked  bool
	reported    map[string]bool
	suspects    []servedSuspect
	deleted     map[string]bool // a delete (event, or notFound on re-fetch/query) reached the gateway since the subscription was established
}

func NewMonC09() *MonC09 {
	m := &MonC09{reported: map[string]bool{}, deleted: map[string]bool{}, live: map[string]int{}, lastGetOK: map[string]int{}, interrupted: map[string]bool{}, pendingFor: map[string]int{}, reqName: map[int]string{}, subCount: map[string]int{}}
	m.init("C09")
	return m
}

// nameOfSubject extracts the resource name from a request subject.
func nameOfSubject(subj string) string {
	switch {
	case strings.HasPrefix(subj, "get."):
		return subj[4:]
	case strings.HasPrefix(subj, "access."):
		return subj[7:]
	case strings.HasPrefix(subj, "call."), strings.HasPrefix(subj, "auth."):
		rest := subj[5:]
		if j := strings.LastIndexByte(rest, '.'); j > 0 {
			return rest[:j]
		}
	}
	return ""
}

func (m *MonC09) OnLog(w *World, e *LogEntry) {
	switch e.Kind {
	case "mq_connect":
		m.live = map[string]int{}
		m.pendingFor = map[string]int{}
	case "mq_sub":
		if strings.HasPrefix(e.Subject, "event.") {
			n := e.Subject[6:]
			m.live[n] = e.T + 1
			m.subCount[n]++
			if m.subCount[n] > 1 {
				m.zeroAndBack = true
			}
		}
	case "mq_sub_dup":
		m.violate(w, "duplicate_event_subscription", "second live subscription for %s", e.Subject)
	case "mq_unsub":
		if strings.HasPrefix(e.Subject, "event.") {
			n := e.Subject[6:]
			delete(m.live, n)
			m.interrupted[n] = true
			// nobody may still use the resource
			if m.pendingFor[n] > 0 {
				m.violate(w, "unsubscribed_while_request_pending", "event subscription for %s released at t=%d while %d service requests for it are pending", n, e.T, m.pendingFor[n])
			}
		}
	case "mq_req":
		n := nameOfSubject(e.Subject)
		if n == "" {
			return
		}
		if !strings.HasPrefix(e.Subject, "get.") {
			// get requests are not counted: a reset re-fetch does not keep an entry
			// alive, and an initial get is covered by its waiting subscriber
			m.reqName[e.Req] = n
			m.pendingFor[n]++
		}
		if strings.HasPrefix(e.Subject, "get.") {
			if m.live[n] == 0 {
				m.viols = append(m.viols, Violation{Property: "C09", Class: "get_without_subscription", Step: e.Step, T: e.T, Conn: -1, RID: n,
					Message: fmt.Sprintf("get.%s requested at t=%d without a live event subscription established before it", n, e.T)})
			}
		}
	case "mq_ev":
		if strings.HasPrefix(e.Subject, "event.") && strings.HasSuffix(e.Subject, ".delete") {
			m.deleted[e.Subject[6:len(e.Subject)-7]] = true
		}
	case "mq_complete":
		if strings.Contains(string(e.Payload), `"system.notFound"`) || strings.Contains(e.Err, "Not found") {
			if strings.HasPrefix(e.Subject, "get.") {
				m.deleted[e.Subject[4:]] = true
			} else if strings.HasPrefix(e.Subject, "_EVQ.") {
				m.deleted[w.qevSubjects[e.Subject]] = true
			}
		}
		if strings.HasPrefix(e.Subject, "get.") && e.Err == "" && !strings.Contains(string(e.Payload), `"error"`) {
			n := e.Subject[4:]
			m.lastGetOK[n] = e.T
			m.interrupted[n] = false
		}
		n := m.reqName[e.Req]
		if n == "" {
			return
		}
		m.pendingFor[n]--
		if m.live[n] == 0 && m.pendingFor[n] >= 0 {
			m.reqOutlived = true
		}
	case "frame":
		// data for n reaches a client only under an uninterrupted subscription since the get answer
		c := w.Clients[e.Conn]
		for i := len(c.Ref.Handovers) - 1; i >= 0; i-- {
			h := c.Ref.Handovers[i]
			if h.T != e.T {
				break
			}
			r := c.Ref.Held[h.RID]
			if r == nil || r.Type == 'e' || !h.Fresh {
				continue
			}
			n, _ := w.expandRID(c, h.RID)
			if (m.live[n] == 0 || m.interrupted[n]) && !m.deleted[n] {
				// The log orders the client's reading of a frame, not the gateway's
				// writing of it: an event that follows in the same step may already
				// have removed the resource again, and released the subscription,
				// before the client read this frame. Judged at the end of the step.
				m.suspects = append(m.suspects, servedSuspect{c.Idx, h.RID, r.Episode, Violation{Property: "C09", Class: "served_without_uninterrupted_subscription", Conn: c.Idx, RID: h.RID, T: e.T, Step: e.Step,
					Message: fmt.Sprintf("c%d was handed %s at t=%d but the event subscription for %s was not live without interruption since the get answer (live=%v, last get answer t=%d)", c.Idx, h.RID, e.T, n, m.live[n] != 0, m.lastGetOK[n])}})
			}
		}
	}
}

type servedSuspect struct {
	conn    int
	rid     string
	episode int
	v       Violation
}

func (m *MonC09) OnStepEnd(w *World, step int) {
	for _, s := range m.suspects {
		c := w.Clients[s.conn]
		if c.Closed || c.EOF || c.Ref.Closed {
			// a frame read by a client that was closing at the same moment
			m.class("handed_to_closing_client")
			continue
		}
		if r := c.Ref.Held[s.rid]; r != nil && r.Episode == s.episode {
			m.viols = append(m.viols, s.v)
		} else {
			m.class("handed_and_removed_within_step")
		}
	}
	m.suspects = nil
	m.checkCounts(w)
}

// heldWithoutSubscription: at the quiescent end of the history (nothing pending,
// every queued frame delivered) a client holds a resource only under a live
// event subscription. During a history the gateway may already have released a
// resource whose removal is still on its way to the client in a queued event.
func (m *MonC09) heldWithoutSubscription(w *World) {
	if w.mq.PendingCount() > 0 || m.EndChecked {
		return
	}
	for _, c := range w.Clients {
		if !c.Dialed || c.EOF || c.Closed {
			continue
		}
		// what the client holds through live resources only: below a deleted
		// resource (whose copy is frozen) the gateway follows no references
		live := map[string]bool{}
		var stack []string
		for rid, n := range c.Ref.Direct {
			if r := c.Ref.Held[rid]; n > 0 && r != nil && !r.Deleted {
				live[rid] = true
				stack = append(stack, rid)
			}
		}
		for len(stack) > 0 {
			rid := stack[len(stack)-1]
			stack = stack[:len(stack)-1]
			r := c.Ref.Held[rid]
			visit := func(v interface{}) {
				if ref, ok := c.Ref.isRef(v); ok {
					if x := c.Ref.Held[ref]; x != nil && !x.Deleted && !live[ref] {
						live[ref] = true
						stack = append(stack, ref)
					}
				}
			}
			for _, v := range r.Model {
				visit(v)
			}
			for _, v := range r.Coll {
				visit(v)
			}
		}
		for rid, r := range c.Ref.Held {
			if r.Deleted || r.Type == 'e' {
				continue
			}
			if !live[rid] {
				m.class("held_only_below_a_deleted_resource")
				continue
			}
			n, _ := w.expandRID(c, rid)
			if m.live[n] == 0 && !m.deleted[n] && !m.reported[n] {
				m.reported[n] = true
				m.viols = append(m.viols, Violation{Property: "C09", Class: "unsubscribed_while_client_holds", Conn: c.Idx, RID: rid, T: w.now(), Step: w.step,
					Message: fmt.Sprintf("at the quiescent end of the history c%d holds %s but the gateway has no event subscription for %s", c.Idx, rid, n)})
			}
		}
	}
}

func (m *MonC09) OnEnd(w *World) []Violation {
	m.heldWithoutSubscription(w)
	if m.zeroAndBack {
		m.class("resubscribed_after_release")
		m.nontriv = true
	}
	if m.reqOutlived {
		m.class("request_outlived_subscription")
		m.nontriv = true
	}
	return m.viols
}

// EndState closes every connection, waits out the eviction delay, and checks
// that nothing is left; then a fresh subscribe must fetch anew.
func (m *MonC09) EndState(w *World) {
	if w.Failed != "" || w.Deadlock != "" || !w.started {
		return
	}
	m.heldWithoutSubscription(w)
	for _, c := range w.Clients {
		if c.Dialed && !c.Closed && !c.EOF {
			w.execEpilogue(Op{K: "close", C: c.Idx})
		}
	}
	w.drainPending()
	if w.Cfg.UnsubDelayMs > 0 {
		time.Sleep(time.Duration(w.Cfg.UnsubDelayMs+15) * time.Millisecond)
	}
	// wait for pending eviction timers
	for i := 0; i < 200; i++ {
		r := dump()
		if r.timers == 0 && r.quiescent {
			break
		}
		time.Sleep(time.Millisecond)
	}
	w.Settle()
	m.EndChecked = true
	m.class("end_state_checked")
	var left []string
	for _, ns := range w.mq.SubNames() {
		if strings.HasPrefix(ns, "event.") || strings.HasPrefix(ns, "conn.") {
			left = append(left, ns)
		}
	}
	if len(left) > 0 {
		m.violate(w, "subscriptions_left", "with no clients and no requests in flight the gateway still holds %d subscription(s): %s", len(left), trunc(strings.Join(left, ","), 200))
	}
	if w.Cfg.Metrics {
		r, s := w.Metric("resgate_cache_resources"), w.Metric("resgate_cache_subscriptions")
		if r != 0 || s != 0 {
			m.violate(w, "gauges_nonzero", "with no clients and no requests in flight resgate_cache_resources=%v resgate_cache_subscriptions=%v", r, s)
		}
	}
	m.checkCounts(w)
	// a later subscribe fetches anew
	if len(w.Clients) < 12 {
		before := w.now()
		w.execEpilogue(Op{K: "connect", C: len(w.Clients)})
		c := w.Clients[len(w.Clients)-1]
		if c.Dialed {
			w.execEpilogue(Op{K: "creq", C: c.Idx, ID: 1, M: "subscribe.t.a"})
			gotSub, gotGet := false, false
			for _, e := range w.Log()[before:] {
				if e.Kind == "mq_sub" && e.Subject == "event.t.a" {
					gotSub = true
				}
				if e.Kind == "mq_req" && e.Subject == "get.t.a" && gotSub {
					gotGet = true
				}
			}
			if !gotGet {
				m.violate(w, "not_fetched_anew", "after the cache was emptied a new subscribe to t.a did not subscribe and fetch anew (sub=%v)", gotSub)
			}
			w.drainPending()
			w.execEpilogue(Op{K: "close", C: c.Idx})
		}
	}
}

func trunc(s string, n int) string {
	if len(s) > n {
		return s[:n] + "…"
	}
	return s
}
