//go:build verif

package sim

// cacheJSON returns the cached JSON per loaded (name, query) resource.
func cacheJSON(w *World) map[string]string {
	if !w.started || w.Failed != "" || w.Deadlock != "" {
		return nil
	}
	r := map[string]string{}
	for _, e := range w.CacheSnapshot() {
		for _, rs := range e.Resources {
			if rs.State >= 3 {
				r[e.Name+"?"+rs.Query] = rs.JSON
			}
		}
	}
	return r
}
