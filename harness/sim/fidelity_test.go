package sim

import (
	"encoding/json"
	"fmt"
	"regexp"
	"strings"
	"testing"

	"pgregory.net/rapid"
)

var wsKeyRe = regexp.MustCompile(`"Sec-Websocket-Key":\["[^"]*"\]`)

// logSignature renders the boundary log with connection ids made symbolic, so
// that two runs of the same script can be compared.
func logSignature(w *World) []string {
	var out []string
	for _, e := range w.Log() {
		pl := string(e.Payload)
		var v interface{}
		if json.Unmarshal(e.Payload, &v) == nil {
			b, _ := json.Marshal(v) // canonical key order
			pl = string(b)
		}
		s := fmt.Sprintf("s%d %s c%d %s %s %s", e.Step, e.Kind, e.Conn, e.Subject, pl, e.Err)
		for cid, a := range w.cidOwner {
			s = strings.Replace(s, cid, fmt.Sprintf("{cid:%d}", a), -1)
		}
		out = append(out, wsKeyRe.ReplaceAllString(s, `"Sec-Websocket-Key":["*"]`))
	}
	return out
}

// TestReplayFidelity is a self-check of the harness, not a property check: a
// generated history, replayed from its script, must produce the same boundary
// log up to the order of entries within a step.
func TestReplayFidelity(t *testing.T) {
	id := *flagProp
	if id == "" {
		t.Skip("no -verif.prop")
	}
	prop := Props[id]
	if prop == nil || prop.Custom != nil {
		t.Skip("not a generated-history property")
	}
	cases, diffs := 0, 0
	rapid.Check(t, func(rt *rapid.T) {
		p := prop.Profiles[rapid.IntRange(0, len(prop.Profiles)-1).Draw(rt, "profile")]
		cfg := prop.Config(rt, p)
		w, err := NewWorld(cfg)
		if err != nil {
			rt.Skip("world")
		}
		w.Settle()
		g := NewGen(rt, w, p)
		n := rapid.IntRange(p.MinOps, p.MaxOps).Draw(rt, "nops")
		for i := 0; i < n; i++ {
			if !g.Step() || w.Failed != "" || w.Deadlock != "" {
				break
			}
		}
		sig := logSignature(w)
		script := append([]Op(nil), w.SymScript...)
		w.Shutdown()
		w2, _ := NewWorld(cfg)
		w2.Settle()
		for _, op := range script {
			w2.Exec(op)
		}
		sig2 := logSignature(w2)
		w2.Shutdown()
		cases++
		a, b := map[string]int{}, map[string]int{}
		for _, s := range sig {
			a[s]++
		}
		for _, s := range sig2 {
			b[s]++
		}
		bad := ""
		for s, n := range a {
			if b[s] != n {
				bad = s
				break
			}
		}
		if bad == "" && len(sig) != len(sig2) {
			bad = "length"
		}
		if bad != "" {
			diffs++
			if diffs <= 3 {
				t.Logf("replay differs (%d vs %d entries), e.g. %s\n%s", len(sig), len(sig2), trunc(bad, 200), ScriptString(script))
			}
		}
	})
	t.Logf("FIDELITY cases=%d differing=%d", cases, diffs)
}
