package sim

import (
	"bytes"
	"runtime"
	"strings"
	"time"
)

// Exact quiescence detection from a goroutine dump (DESIGN.md 3.4).
//
// runtime.Stack(all=true) is a stop-the-world snapshot. The world is quiescent
// iff every goroutine other than the caller is parked at a whitelisted idle
// point. Unknown goroutines count as busy (fail-safe).

type gState int

const (
	gBusy gState = iota
	gIdle
	gTimer   // eviction timer sleeping: idle, but a timer is pending
	gParked  // parked at a non-idle wait (mutex, chan, cond): candidate for deadlock
	gSelfish // the caller
)

type dumpResult struct {
	quiescent bool
	timers    int
	busy      int
	parked    int // parked at non-idle waits
	total     int
	firstBusy string
}

var stackBuf = make([]byte, 1<<20)

// stalledClients is set while a world has a client that does not read (see Client.stall).
var stalledClients bool

// idle points: first function of the stack -> required wait-state prefix
var idlePoints = []struct {
	fn     string
	status string
}{
	{"github.com/resgateio/resgate/server/rescache.(*Cache).startWorker", "chan receive"},
	{"github.com/resgateio/resgate/server.(*wsConn).outputWorker", "chan receive"},
	{"net.(*pipe).read", "select"},
	{"github.com/resgateio/resgate/server.(*Service).temporaryConn", "chan receive"},
	{"github.com/resgateio/resgate/server.(*Service).wsHeaderAuth", "chan receive"},
	{"verif/harness/sim.(*MockMQ).listen", "chan receive"},
	{"testing.(*T).Run", "chan receive"},
	{"testing.(*M).Run", ""},
	{"testing.runTests", ""},
	{"testing.tRunner", "chan receive"},
	{"testing.(*F).Fuzz", ""},
	{"verif/harness/sim.(*httpCall).wait", "chan receive"},
	{"verif/harness/sim.idleForever", ""},
	{"verif/harness/sim.waitStall", "chan receive"},
}

func classify(block []byte) (gState, string) {
	// header: goroutine N [status, X minutes]:
	nl := bytes.IndexByte(block, '\n')
	if nl < 0 {
		return gBusy, string(block)
	}
	hdr := block[:nl]
	lb := bytes.IndexByte(hdr, '[')
	rb := bytes.LastIndexByte(hdr, ']')
	if lb < 0 || rb < lb {
		return gBusy, string(hdr)
	}
	status := string(hdr[lb+1 : rb])
	rest := block[nl+1:]
	// first function line
	nl2 := bytes.IndexByte(rest, '\n')
	var fnline []byte
	if nl2 < 0 {
		fnline = rest
	} else {
		fnline = rest[:nl2]
	}
	fn := string(fnline)
	if p := strings.LastIndexByte(fn, '('); p > 0 {
		fn = fn[:p]
	}
	for _, ip := range idlePoints {
		if fn == ip.fn && strings.HasPrefix(status, ip.status) {
			return gIdle, fn
		}
	}
	if strings.HasPrefix(status, "IO wait") && bytes.Contains(rest, []byte("net/http.(*Server).Serve(")) && bytes.Contains(rest, []byte(".Accept(")) {
		// the accept loop of a real listener (worlds with Listen)
		return gIdle, "net/http.(*Server).Serve"
	}
	if stalledClients && fn == "net.(*pipe).write" && strings.HasPrefix(status, "select") {
		// the gateway writing to a client that does not read
		return gIdle, fn
	}
	if fn == "time.Sleep" && strings.HasPrefix(status, "sleep") {
		// timerqueue timer goroutine
		if bytes.Contains(rest, []byte("timerqueue.(*Queue).timer")) {
			return gTimer, fn
		}
	}
	if strings.HasPrefix(status, "running") || strings.HasPrefix(status, "runnable") || strings.HasPrefix(status, "syscall") {
		return gBusy, fn + " [" + status + "]"
	}
	return gParked, fn + " [" + status + "]"
}

func dump() dumpResult {
	n := runtime.Stack(stackBuf, true)
	for n == len(stackBuf) {
		stackBuf = make([]byte, 2*len(stackBuf))
		n = runtime.Stack(stackBuf, true)
	}
	buf := stackBuf[:n]
	var r dumpResult
	first := true
	for len(buf) > 0 {
		end := bytes.Index(buf, []byte("\n\n"))
		var block []byte
		if end < 0 {
			block = buf
			buf = nil
		} else {
			block = buf[:end]
			buf = buf[end+2:]
		}
		if !bytes.HasPrefix(block, []byte("goroutine ")) {
			continue
		}
		r.total++
		if first {
			// the caller
			first = false
			continue
		}
		st, desc := classify(block)
		switch st {
		case gIdle:
		case gTimer:
			r.timers++
		case gParked:
			r.parked++
			if r.firstBusy == "" {
				r.firstBusy = desc
			}
		default:
			r.busy++
			if r.firstBusy == "" {
				r.firstBusy = desc
			}
		}
	}
	r.quiescent = r.busy == 0 && r.parked == 0
	return r
}

// DumpAll returns the full goroutine dump as a string (diagnostics).
func DumpAll() string {
	n := runtime.Stack(stackBuf, true)
	return string(stackBuf[:n])
}

type settleResult struct {
	ok       bool
	timers   int
	deadlock bool
	desc     string
}

// settle waits until the world is quiescent. allowTimers: a sleeping eviction
// timer does not prevent quiescence (it is reported). If the world does not
// become quiescent within the limit, ok=false; if additionally all goroutines
// were parked (none running) and unchanged over the last 2 seconds, deadlock=true.
func (w *World) settleWait(limit time.Duration) settleResult {
	start := time.Now()
	spins := 0
	var parkedSince time.Time
	lastDesc := ""
	for {
		if w.mq.idle() {
			// Give runnable goroutines a chance before paying for a dump.
			for i := 0; i < 3; i++ {
				runtime.Gosched()
			}
			if w.mq.idle() {
				r := dump()
				w.stats.Dumps++
				if r.quiescent && w.mq.idle() {
					return settleResult{ok: true, timers: r.timers}
				}
				if r.busy == 0 && r.parked > 0 {
					if parkedSince.IsZero() || r.firstBusy != lastDesc {
						parkedSince = time.Now()
						lastDesc = r.firstBusy
					} else if time.Since(parkedSince) > 2*time.Second {
						return settleResult{ok: false, deadlock: true, desc: r.firstBusy}
					}
				} else {
					parkedSince = time.Time{}
				}
				lastDesc = r.firstBusy
			}
		}
		spins++
		if spins > 20 {
			time.Sleep(50 * time.Microsecond)
		}
		if spins > 2000 {
			time.Sleep(time.Millisecond)
		}
		if time.Since(start) > limit {
			return settleResult{ok: false, desc: lastDesc}
		}
	}
}

// Leftover waits briefly for the goroutines of a shut-down world to exit and
// returns a description of any that remain (they would poison later cases).
func (w *World) Leftover() string {
	deadline := time.Now().Add(4 * time.Second)
	for {
		r := dump()
		if r.busy == 0 && r.parked == 0 {
			return ""
		}
		if time.Now().After(deadline) {
			return r.firstBusy + "\n" + DumpAll()
		}
		time.Sleep(2 * time.Millisecond)
	}
}
