//go:build !verif

package sim

func cacheJSON(w *World) map[string]string { return nil }
