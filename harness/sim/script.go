package sim

import (
	"encoding/json"
	"fmt"
	"strings"
)

// Op is one self-contained script operation (DESIGN.md 3.2). Ops refer to
// things by stable identity; an op whose referent does not exist is a no-op,
// so every subsequence of a script is a script.
type Op struct {
	K string `json:"k"`

	C  int    `json:"c,omitempty"`  // client connection index / http call id
	ID uint64 `json:"id,omitempty"` // client request id
	M  string `json:"m,omitempty"`  // client method string / http method / event name
	P  string `json:"p,omitempty"`  // params / payload (JSON text or raw bytes)

	S string `json:"s,omitempty"` // subject (pending ref) or resource name
	Q string `json:"q,omitempty"` // query of the pending request / resource variant
	A int    `json:"a,omitempty"` // actor of the pending request (conn idx, -1 none); stored +1 so that 0 = none
	N int    `json:"n,omitempty"` // ordinal among identical pending / index
	O string `json:"o,omitempty"` // outcome / sub-kind

	Key string `json:"key,omitempty"` // model key
	Val *Val   `json:"val,omitempty"` // value for mutations

	H   map[string]string `json:"h,omitempty"`   // http headers
	Par []Op              `json:"par,omitempty"` // race group
}

// Actor encoding for Op.A: 0 = none, i+1 = actor i.
func actorEnc(a int) int { return a + 1 }
func actorDec(a int) int { return a - 1 }

// Val is a RES value as the reference service holds it.
type Val struct {
	K byte   `json:"k"` // 'p' primitive, 'r' reference, 's' soft reference, 'd' data value
	R string `json:"r"` // JSON text (p), rid (r,s), inner JSON text (d)
}

func Prim(js string) Val    { return Val{'p', js} }
func Ref(rid string) Val    { return Val{'r', rid} }
func Soft(rid string) Val   { return Val{'s', rid} }
func Data(inner string) Val { return Val{'d', inner} }

// ServiceJSON renders the value as a service sends it.
func (v Val) ServiceJSON() string {
	switch v.K {
	case 'r':
		return `{"rid":` + jstr(v.R) + `}`
	case 's':
		return `{"rid":` + jstr(v.R) + `,"soft":true}`
	case 'd':
		return `{"data":` + v.R + `}`
	}
	return v.R
}

// ClientJSON renders the value as a client of the given protocol version must see it.
func (v Val) ClientJSON(ver int) string {
	if ver < verSoftData {
		switch v.K {
		case 's':
			return jstr(v.R)
		case 'd':
			return `"[Data]"`
		}
	}
	return v.ServiceJSON()
}

func (v Val) Equal(o Val) bool { return v.K == o.K && v.R == o.R }

func jstr(s string) string {
	b, _ := json.Marshal(s)
	return string(b)
}

const (
	verLegacy   = 1001001
	verCallRes  = 1002000
	verSoftData = 1002001
	verLatest   = 1002003
)

// String renders the op in the compact text form used in evidence samples.
func (o Op) String() string {
	switch o.K {
	case "connect":
		return fmt.Sprintf("connect c%d", o.C)
	case "creq":
		s := fmt.Sprintf("c%d #%d %s", o.C, o.ID, o.M)
		if o.P != "" {
			s += " " + o.P
		}
		if o.N > 1 {
			s += fmt.Sprintf(" x%d", o.N)
		}
		return s
	case "craw":
		return fmt.Sprintf("c%d raw %q", o.C, o.P)
	case "close":
		return fmt.Sprintf("c%d close", o.C)
	case "ans":
		a := "-"
		if o.A != 0 {
			a = fmt.Sprintf("a%d", actorDec(o.A))
		}
		q := ""
		if o.Q != "" {
			q = "?" + o.Q
		}
		s := fmt.Sprintf("mq answer %s%s[%s]#%d %s", o.S, q, a, o.N, o.O)
		if o.P != "" {
			s += " " + o.P
		}
		return s
	case "mut", "silent":
		q := ""
		if o.Q != "" {
			q = "?" + o.Q
		}
		v := ""
		if o.Val != nil {
			v = o.Val.ServiceJSON()
		}
		return fmt.Sprintf("svc %s %s%s %s key=%s idx=%d %s", o.K, o.S, q, o.O, o.Key, o.N, v)
	case "mutm":
		var ps []string
		for _, p := range o.Par {
			v := ""
			if p.Val != nil {
				v = p.Val.ServiceJSON()
			}
			ps = append(ps, p.Key+"="+v)
		}
		return fmt.Sprintf("svc mutm %s set %s", o.S, strings.Join(ps, " "))
	case "custom", "delete", "reaccess", "qevent":
		return fmt.Sprintf("svc %s %s %s", o.K, o.S, o.M)
	case "rawev":
		return fmt.Sprintf("inject %s %q", o.S, o.P)
	case "sysreset":
		return "sys reset " + o.P
	case "token":
		return fmt.Sprintf("conn token c%d %s tid=%s", o.C, o.P, o.S)
	case "tokreset":
		return "sys tokenReset " + o.P
	case "http":
		return fmt.Sprintf("http h%d %s %s %v %s", o.C, o.M, o.S, o.H, o.P)
	case "par":
		var parts []string
		for _, p := range o.Par {
			parts = append(parts, p.String())
		}
		if o.O == "held" {
			return "par worker-held { " + strings.Join(parts, " ; ") + " }"
		}
		return "par { " + strings.Join(parts, " ; ") + " }"
	case "sleep":
		return fmt.Sprintf("sleep %dms", o.N)
	}
	b, _ := json.Marshal(o)
	return string(b)
}

// ScriptString renders a script, one op per line.
func ScriptString(ops []Op) string {
	var sb strings.Builder
	for i, o := range ops {
		if i > 0 {
			sb.WriteString(" | ")
		}
		sb.WriteString(o.String())
	}
	return sb.String()
}

// ReplayFile is the on-disk replay format.
type ReplayFile struct {
	Property string      `json:"property"`
	Profile  string      `json:"profile"`
	Config   WorldConfig `json:"config"`
	Script   []Op        `json:"script"`
	Message  string      `json:"message,omitempty"`
	Class    string      `json:"class,omitempty"`
	Text     string      `json:"text,omitempty"`
	Race     bool        `json:"race,omitempty"`
}
