//go:build verif

package sim

import (
	"time"

	"github.com/resgateio/resgate/server"
	"github.com/resgateio/resgate/server/rescache"
)

// HooksEnabled reports whether the verif build tag hooks are compiled in.
const HooksEnabled = true

func setUnsubDelay(s *server.Service, d time.Duration) {
	s.VerifCache().VerifSetUnsubscribeDelay(d)
}

// CacheSnapshot returns the cache snapshot (nil without hooks).
func (w *World) CacheSnapshot() []rescache.VerifEntry {
	return w.svc.VerifCache().VerifSnapshot()
}

// ConnSnapshot returns the connection table snapshot (nil without hooks).
func (w *World) ConnSnapshot() []server.VerifConn {
	return w.svc.VerifConns()
}
