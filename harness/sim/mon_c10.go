package sim

import (
	"encoding/json"
	"fmt"
	"sort"
	"strings"
)

// ---------------------------------------------------------------------------
// C10: connection isolation (offline over the boundary and frame logs, deterministic mode)

type MonC10 struct{ baseMon }

func NewMonC10() *MonC10 { m := &MonC10{}; m.init("C10"); return m }

func (m *MonC10) OnEnd(w *World) []Violation {
	b := BuildAccessBook(w)
	log := w.Log()
	cids := w.CIDs()
	cidResource, tokenEvents := false, false
	// (d') nor does a header of an HTTP response (the Location of a resource response)
	for _, h := range w.HTTP {
		if !h.Done {
			continue
		}
		for k, vs := range h.RespHeader {
			for _, v := range vs {
				for _, cid := range cids {
					if cid != "" && strings.Contains(v, cid) {
						m.viols = append(m.viols, Violation{Property: "C10", Class: "cid_leaked_to_client", Step: w.stepOfT(h.DoneT), T: h.DoneT, Conn: -1,
							Message: fmt.Sprintf("the %s header of the response to %s %s contains the connection id of a%d: %q", k, h.Method, h.URL, w.ActorOf(cid), v)})
					}
				}
			}
		}
	}
	// stimulus of each step
	type stim struct {
		kind string // cframe | http | token | other
		cid  string
	}
	stims := map[int]stim{}
	for i := range log {
		e := &log[i]
		if _, ok := stims[e.Step]; ok || e.Step < 0 {
			continue
		}
		switch e.Kind {
		case "cframe":
			stims[e.Step] = stim{"cframe", w.Clients[e.Conn].CID}
		case "http_req":
			if h := w.httpByID(e.HTTP); h != nil {
				stims[e.Step] = stim{"http", h.CID}
			}
		case "mq_ev":
			if strings.HasPrefix(e.Subject, "conn.") && strings.HasSuffix(e.Subject, ".token") {
				stims[e.Step] = stim{"token", e.Subject[5 : len(e.Subject)-6]}
				tokenEvents = true
			} else {
				stims[e.Step] = stim{"other", ""}
				if e.Subject == "system.tokenReset" {
					tokenEvents = true
				}
			}
		default:
			if e.Kind != "dial" && e.Kind != "mq_sub" {
				stims[e.Step] = stim{"other", ""}
			}
		}
	}
	closedAt := map[string]int{}
	for _, e := range log {
		if e.Kind == "mq_unsub" && strings.HasPrefix(e.Subject, "conn.") {
			closedAt[e.Subject[5:]] = e.T
		}
	}
	for i := range log {
		e := &log[i]
		switch e.Kind {
		case "mq_req", "mq_sub":
			st := stims[e.Step]
			if e.Kind == "mq_req" && e.CID != "" {
				m.class("cid_request_checked")
				// (a) requests made in the step of a connection's own stimulus carry that connection's id
				if (st.kind == "cframe" || st.kind == "http" || st.kind == "token") && st.cid != "" && e.CID != st.cid {
					m.viols = append(m.viols, Violation{Property: "C10", Class: "foreign_cid", Step: e.Step, T: e.T, Conn: w.ActorOf(st.cid),
						Message: fmt.Sprintf("request %s carries connection id of a%d although it was caused by a%d (%s)", e.Subject, w.ActorOf(e.CID), w.ActorOf(st.cid), st.kind)})
				}
				// (b) the token is the one most recently set for that connection
				if strings.HasPrefix(e.Subject, "access.") || strings.HasPrefix(e.Subject, "call.") || strings.HasPrefix(e.Subject, "auth.") {
					want, _ := b.tokenAt(e.CID, e.T)
					if got := tokenOf(e.Payload); !sameToken(want, got) {
						m.viols = append(m.viols, Violation{Property: "C10", Class: "foreign_token", Step: e.Step, T: e.T, Conn: w.ActorOf(e.CID),
							Message: fmt.Sprintf("request %s for a%d carries token %s, that connection's token is %s", e.Subject, w.ActorOf(e.CID), orNone(got), orNone(want))})
					}
				}
			}
			// (f) every {cid} tag is expanded towards the services, wherever it stands
			if strings.Contains(e.Subject, "{cid}") || strings.Contains(e.Query, "{cid}") {
				m.viols = append(m.viols, Violation{Property: "C10", Class: "cid_tag_not_expanded", Step: e.Step, T: e.T, Conn: w.ActorOf(e.CID),
					Message: fmt.Sprintf("%s %s (query %q) still contains a {cid} tag", e.Kind, e.Subject, e.Query)})
			}
			// (c) a subject or query containing a connection id other than the causing connection's
			for _, cid := range cids {
				if cid == "" {
					continue
				}
				in := strings.Contains(e.Subject, cid) || strings.Contains(e.Query, cid)
				if !in {
					continue
				}
				cidResource = true
				owner := e.CID
				if owner == "" && (st.kind == "cframe" || st.kind == "http") {
					owner = st.cid
				}
				if e.Kind == "mq_sub" && e.Subject == "conn."+cid {
					continue
				}
				if owner != "" && owner != cid {
					m.viols = append(m.viols, Violation{Property: "C10", Class: "cid_expanded_for_other_connection", Step: e.Step, T: e.T, Conn: w.ActorOf(owner),
						Message: fmt.Sprintf("%s %s (query %q) contains the id of a%d although it was made for a%d", e.Kind, e.Subject, e.Query, w.ActorOf(cid), w.ActorOf(owner))})
				}
			}
		case "frame", "http_resp":
			// (d) no client frame contains a connection id
			for _, cid := range cids {
				if cid != "" && strings.Contains(string(e.Payload), cid) {
					m.viols = append(m.viols, Violation{Property: "C10", Class: "cid_leaked_to_client", Step: e.Step, T: e.T, Conn: e.Conn,
						Message: fmt.Sprintf("a frame sent to a client contains the connection id of a%d: %s", w.ActorOf(cid), trunc(string(e.Payload), 200))})
				}
			}
			m.class("frame_scanned")
		case "mq_ev":
			// (e) events on a {cid} resource reach only its owner
			if strings.HasPrefix(e.Subject, "event.") {
				for _, cid := range cids {
					if cid == "" || !strings.Contains(e.Subject, cid) {
						continue
					}
					for _, f := range log[i:] {
						if f.Step != e.Step {
							break
						}
						if f.Kind == "frame" && strings.Contains(string(f.Payload), "{cid}") && strings.Contains(string(f.Payload), `"event"`) && w.Clients[f.Conn].CID != cid {
							m.viols = append(m.viols, Violation{Property: "C10", Class: "event_crossed_connections", Step: f.Step, T: f.T, Conn: f.Conn,
								Message: fmt.Sprintf("an event on %s (owned by a%d) was sent to c%d: %s", e.Subject, w.ActorOf(cid), f.Conn, trunc(string(f.Payload), 160))})
						}
					}
				}
			}
			// (f) token reset: exactly one auth request per connection whose tid is listed
			if e.Subject == "system.tokenReset" {
				var p struct {
					TIDs    []string `json:"tids"`
					Subject string   `json:"subject"`
				}
				if json.Unmarshal(e.Payload, &p) != nil || p.Subject == "" {
					continue
				}
				want := map[string]bool{}
				for _, cid := range cids {
					if cid == "" {
						continue
					}
					if t, ok := closedAt[cid]; ok && t < e.T {
						continue
					}
					_, tid := b.tokenAt(cid, e.T)
					for _, x := range p.TIDs {
						if tid != "" && x == tid {
							want[cid] = true
						}
					}
				}
				got := map[string]int{}
				for _, f := range log[i:] {
					if f.Step != e.Step {
						break
					}
					if f.Kind == "mq_req" && f.Subject == p.Subject {
						got[f.CID]++
					}
				}
				m.class("token_reset_checked")
				var ws, gs []string
				for c := range want {
					ws = append(ws, fmt.Sprintf("a%d", w.ActorOf(c)))
				}
				for c, n := range got {
					gs = append(gs, fmt.Sprintf("a%d x%d", w.ActorOf(c), n))
				}
				sort.Strings(ws)
				sort.Strings(gs)
				bad := len(want) != len(got)
				for c, n := range got {
					if !want[c] || n != 1 {
						bad = true
					}
				}
				if bad {
					m.viols = append(m.viols, Violation{Property: "C10", Class: "token_reset_fanout", Step: e.Step, T: e.T, Conn: -1,
						Message: fmt.Sprintf("system.tokenReset %s: auth requests for %v, expected exactly one each for %v", e.Payload, gs, ws)})
				}
			}
		}
	}
	open := 0
	for _, c := range w.Clients {
		if c.Dialed {
			open++
		}
	}
	if open >= 2 && cidResource && tokenEvents {
		m.nontriv = true
	}
	if cidResource {
		m.class("cid_resource_used")
	}
	if tokenEvents {
		m.class("token_events")
	}
	return m.viols
}
