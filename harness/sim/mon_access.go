package sim

import (
	"encoding/json"
	"fmt"
	"sort"
	"strings"
)

// AccessBook is the bookkeeping shared by the access properties (C04, C05,
// C06, C10): access answers, tokens and triggers, reconstructed from the
// boundary log at the end of a history (deterministic mode).

type accessAnswer struct {
	ReqT   int
	T      int
	CID    string
	Name   string
	Query  string
	Token  string // token JSON in the request ("" = absent)
	Get    bool
	Call   string
	IsErr  bool
	Code   string // error code if any ("system.accessDenied" for plain denial of get is decided by caller)
	HasRes bool
	IsHTTP bool
}

type tokenEvent struct {
	T     int
	Token string // JSON text
	TID   string
	Null  bool
}

type trigger struct {
	T     int
	Kind  string // token | reaccess | reset
	CID   string // token: the connection
	Name  string // reaccess: resource name
	Pats  []string
	Oblig bool // creates a C06 obligation (false for token events following a null token)
}

type AccessBook struct {
	w        *World
	answers  []accessAnswer
	tokens   map[string][]tokenEvent // cid -> delivered token events
	triggers []trigger
	reqs     map[int]*LogEntry   // mq req seq -> request entry
	stepT    []int               // step -> log time of its stimulus
	locks    map[string][][2]int // resource name -> query-event lock intervals [start,end] in log time
}

// effT returns the log time at which something that reached the gateway at t
// through the resource's cache queue becomes processable: the queue of a
// resource is suspended while query requests for it are outstanding (C13).
func (b *AccessBook) effT(name string, t int) int {
	held := false
	for again := true; again; {
		again = false
		for _, iv := range b.locks[name] {
			if t > iv[0] && t < iv[1] {
				t, held, again = iv[1], true, true
				break
			}
			// a query event that was queued during the lock takes the lock again the
			// moment it is released: what was queued behind it keeps waiting
			if held && iv[0] > t && b.w.stepOfT(iv[0]) == b.w.stepOfT(t) {
				t, again = iv[1], true
				break
			}
		}
	}
	return t
}

func (t trigger) affects(cid, name string) bool {
	switch t.Kind {
	case "token":
		return t.CID == cid
	case "reaccess":
		return t.Name == name
	case "reset":
		for _, p := range t.Pats {
			if RefPatternMatch(p, name) {
				return true
			}
		}
	}
	return false
}

func tokenOf(payload []byte) string {
	var p struct {
		Token json.RawMessage `json:"token"`
	}
	if json.Unmarshal(payload, &p) != nil || p.Token == nil {
		return ""
	}
	return jsonCompact(p.Token)
}

func BuildAccessBook(w *World) *AccessBook {
	b := &AccessBook{w: w, tokens: map[string][]tokenEvent{}, reqs: map[int]*LogEntry{}, locks: map[string][][2]int{}}
	log := w.Log()
	evqPend := map[string]int{}
	evqStart := map[string]int{}
	evqReq := map[int]string{}
	for i := range log {
		e := &log[i]
		if e.Kind == "mq_req" && strings.HasPrefix(e.Subject, "_EVQ.") {
			n := w.qevSubjects[e.Subject]
			if evqPend[n] == 0 {
				evqStart[n] = e.T
			}
			evqPend[n]++
			evqReq[e.Req] = n
		}
		if e.Kind == "mq_complete" {
			if n, ok := evqReq[e.Req]; ok {
				evqPend[n]--
				if evqPend[n] == 0 {
					b.locks[n] = append(b.locks[n], [2]int{evqStart[n], e.T})
				}
			}
		}
	}
	for n, c := range evqPend {
		if c > 0 {
			b.locks[n] = append(b.locks[n], [2]int{evqStart[n], len(log) + 1})
		}
	}
	lastStep := -1
	for i := range log {
		e := &log[i]
		for e.Step > lastStep {
			lastStep++
			b.stepT = append(b.stepT, e.T)
		}
		switch e.Kind {
		case "mq_req":
			b.reqs[e.Req] = e
		case "mq_complete":
			if !strings.HasPrefix(e.Subject, "access.") {
				continue
			}
			rq := b.reqs[e.Req]
			if rq == nil {
				continue
			}
			a := accessAnswer{ReqT: rq.T, T: e.T, CID: e.CID, Name: e.Subject[7:], Query: e.Query, Token: tokenOf(rq.Payload)}
			var p struct {
				IsHTTP bool `json:"isHttp"`
			}
			json.Unmarshal(rq.Payload, &p)
			a.IsHTTP = p.IsHTTP
			if e.Err != "" {
				a.IsErr = true
				switch {
				case strings.Contains(e.Err, "timeout"):
					a.Code = "system.timeout"
				case strings.Contains(e.Err, "Not found"):
					a.Code = "system.notFound"
				default:
					a.Code = "system.internalError"
				}
			} else {
				var r struct {
					Result *struct {
						Get  bool   `json:"get"`
						Call string `json:"call"`
					} `json:"result"`
					Error *struct {
						Code string `json:"code"`
					} `json:"error"`
				}
				if err := json.Unmarshal(e.Payload, &r); err != nil {
					a.IsErr = true
					a.Code = "system.internalError"
				} else if r.Error != nil {
					a.IsErr = true
					a.Code = r.Error.Code
				} else if r.Result == nil {
					a.IsErr = true
					a.Code = "system.internalError"
				} else {
					a.HasRes = true
					a.Get = r.Result.Get
					a.Call = r.Result.Call
				}
			}
			b.answers = append(b.answers, a)
		case "mq_ev":
			switch {
			case strings.HasPrefix(e.Subject, "conn.") && strings.HasSuffix(e.Subject, ".token"):
				cid := e.Subject[5 : len(e.Subject)-6]
				var p struct {
					Token json.RawMessage `json:"token"`
					TID   string          `json:"tid"`
				}
				if json.Unmarshal(e.Payload, &p) != nil {
					continue
				}
				te := tokenEvent{T: e.T, TID: p.TID}
				if p.Token != nil {
					te.Token = jsonCompact(p.Token)
				}
				te.Null = te.Token == "" || te.Token == "null"
				prev := b.tokens[cid]
				if len(prev) > 0 {
					last := prev[len(prev)-1]
					// a token event on a connection that already had a (non-null) token
					b.triggers = append(b.triggers, trigger{T: e.T, Kind: "token", CID: cid, Oblig: !last.Null})
				}
				b.tokens[cid] = append(prev, te)
			case strings.HasPrefix(e.Subject, "event.") && strings.HasSuffix(e.Subject, ".reaccess"):
				b.triggers = append(b.triggers, trigger{T: e.T, Kind: "reaccess", Name: e.Subject[6 : len(e.Subject)-9], Oblig: true})
			case e.Subject == "system.reset":
				var p struct {
					Access []string `json:"access"`
				}
				if json.Unmarshal(e.Payload, &p) == nil && len(p.Access) > 0 {
					b.triggers = append(b.triggers, trigger{T: e.T, Kind: "reset", Pats: p.Access, Oblig: true})
				}
			}
		}
	}
	return b
}

// tokenAt returns the connection's token (JSON text, "" = none) and tid at log time t.
func (b *AccessBook) tokenAt(cid string, t int) (string, string) {
	tok, tid := "", ""
	for _, te := range b.tokens[cid] {
		if te.T < t {
			tok, tid = te.Token, te.TID
		}
	}
	return tok, tid
}

// latestAnswer returns the latest access answer for (cid,name,query) that arrived before t.
func (b *AccessBook) latestAnswer(cid, name, query string, t int) *accessAnswer {
	var r *accessAnswer
	for i := range b.answers {
		a := &b.answers[i]
		if a.CID == cid && a.Name == name && a.Query == query && a.T < t {
			r = a
		}
	}
	return r
}

// answersBefore returns all access answers for (cid,name,query) that arrived before t.
func (b *AccessBook) answersBefore(cid, name, query string, t int) []*accessAnswer {
	var r []*accessAnswer
	for i := range b.answers {
		a := &b.answers[i]
		if a.CID == cid && a.Name == name && a.Query == query && a.T < t {
			r = append(r, a)
		}
	}
	return r
}

// accessRequestsIn counts access requests for the key issued in [lo,hi].
func (b *AccessBook) accessRequestsIn(cid, name, query string, lo, hi int) int {
	n := 0
	for _, e := range b.w.Log()[lo:hi] {
		if e.Kind == "mq_req" && e.Subject == "access."+name && e.CID == cid && e.Query == query {
			n++
		}
	}
	return n
}

// triggerBetween returns a trigger affecting (cid,name) with lo < T < hi; validity
// triggers include token events after a null token only when strict is false.
func (b *AccessBook) triggerBetween(cid, name string, lo, hi int, obligOnly bool) *trigger {
	for i := range b.triggers {
		t := &b.triggers[i]
		tt := t.T
		if t.Kind != "token" {
			tt = b.effT(name, tt)
		}
		if tt > lo && tt < hi && t.affects(cid, name) && (t.Oblig || !obligOnly) {
			return t
		}
	}
	return nil
}

func sameToken(a, b string) bool {
	if a == "null" {
		a = ""
	}
	if b == "null" {
		b = ""
	}
	return a == b
}

func canCallRef(call, method string) bool {
	if call == "*" {
		return true
	}
	for _, m := range strings.Split(call, ",") {
		if m == method {
			return true
		}
	}
	return false
}

func (w *World) expandRID(c *Client, rid string) (name, query string) {
	return splitRID(strings.Replace(rid, "{cid}", c.CID, -1))
}

// ---------------------------------------------------------------------------
// C04: read gating

type MonC04 struct{ baseMon }

func NewMonC04() *MonC04 { m := &MonC04{}; m.init("C04"); return m }

// OnStepEnd: "... and is left with no direct subscription to the resource".
// Once a subscribe, get or resource request for a resource has failed on a
// connection, the gateway's direct count for it there is at most what the
// client has had confirmed plus what requests still in flight may hold (hook).
func (m *MonC04) OnStepEnd(w *World, step int) {
	if w.Race {
		return
	}
	dc := directCounts(w)
	if dc == nil {
		return
	}
	for _, c := range w.Clients {
		if !c.Dialed || c.EOF || c.Closed || c.CID == "" {
			continue
		}
		failed := map[string]bool{}
		inflight := map[string]int{}
		any := 0
		for _, id := range c.Ref.ReqOrder {
			r := c.Ref.Reqs[id]
			if r.Resp == 0 {
				switch r.Action {
				case "subscribe", "get":
					inflight[strings.Replace(r.RID, "{cid}", c.CID, -1)]++
				case "call", "auth", "new":
					any++
				}
				continue
			}
			switch {
			case (r.Action == "subscribe" || r.Action == "get") && r.IsError:
				failed[strings.Replace(r.RID, "{cid}", c.CID, -1)] = true
			case r.ResRID != "" && r.ResRootErr:
				failed[strings.Replace(r.ResRID, "{cid}", c.CID, -1)] = true
			}
		}
		confirmed := map[string]int{}
		for rid, n := range c.Ref.Direct {
			confirmed[strings.Replace(rid, "{cid}", c.CID, -1)] += n
		}
		for rid := range failed {
			got, ok := dc[c.CID+"|"+rid]
			if !ok {
				m.class("no_subscription_left_after_failed_request")
				continue
			}
			if max := confirmed[rid] + inflight[rid] + any; got > max {
				m.viols = append(m.viols, Violation{Property: "C04", Class: "direct_subscription_left_after_failed_request", Step: step, Conn: c.Idx, RID: rid, T: w.now(),
					Message: fmt.Sprintf("c%d: a request for %s failed, yet the gateway counts %d direct subscription(s) to it on this connection while the client has %d confirmed and at most %d request(s) in flight could hold one", c.Idx, rid, got, confirmed[rid], inflight[rid]+any)})
				return
			}
			m.class("direct_count_after_failed_request_checked")
		}
	}
}

func (m *MonC04) OnEnd(w *World) []Violation {
	b := BuildAccessBook(w)
	var vs []Violation
	sawDenial := map[string]bool{}
	sawGrant := map[string]bool{}
	for _, a := range b.answers {
		k := a.CID + "|" + a.Name + "|" + a.Query
		if a.HasRes && a.Get {
			sawGrant[k] = true
		} else {
			sawDenial[k] = true
		}
	}
	for k := range sawDenial {
		if sawGrant[k] {
			m.nontriv = true
			m.class("denial_and_grant_same_resource")
		}
	}
	for _, c := range w.Clients {
		if c.CID == "" {
			continue
		}
		for _, id := range c.Ref.ReqOrder {
			r := c.Ref.Reqs[id]
			if r.Resp == 0 || r.Dup {
				continue
			}
			root := ""
			t0 := r.SentT
			switch r.Action {
			case "subscribe", "get":
				if !r.IsError {
					root = r.RID
				}
			case "call", "auth", "new":
				if !r.IsError && r.ResRID != "" && !r.ResRootErr {
					root = r.ResRID
					// the verdict is needed from the moment the request's own call/auth
					// answer arrived (other calls of the connection may be answered meanwhile)
					cname, _ := w.expandRID(c, r.RID)
					own := r.Action + "." + cname + "." + r.CMethod
					if r.Action == "new" {
						own = "call." + cname + ".new"
					}
					for _, e := range w.Log()[r.SentT:r.RespT] {
						if e.Kind == "mq_complete" && e.CID == c.CID && e.Subject == own {
							t0 = e.T
							break
						}
					}
				}
			}
			if root != "" && validRIDRef(root) {
				name, q := w.expandRID(c, root)
				m.class("data_response_checked")
				cands := b.answersBefore(c.CID, name, q, r.RespT)
				var granting, valid *accessAnswer
				var badTrig *trigger
				for _, a := range cands {
					if a.HasRes && a.Get {
						granting = a
						// (an answer held back by a query-event lock reaches the connection
						// at the unlock: until then its request counts as in flight)
						aT := b.effT(name, a.T)
						if aT >= t0 {
							valid = a
						} else if tr := b.triggerBetween(c.CID, name, aT, t0, true); tr == nil {
							valid = a
							m.class("cached_verdict_used")
						} else {
							badTrig = tr
						}
					}
				}
				switch {
				case len(cands) == 0:
					vs = append(vs, Violation{Property: "C04", Class: "data_without_access_answer", Conn: c.Idx, RID: root, T: r.RespT, Step: w.stepOfT(r.RespT),
						Message: fmt.Sprintf("c%d: response #%d (%s) handed %s although no access answer for this connection and resource was ever received", c.Idx, id, r.Method, root)})
				case granting == nil:
					a := cands[len(cands)-1]
					vs = append(vs, Violation{Property: "C04", Class: "data_despite_denial", Conn: c.Idx, RID: root, T: r.RespT, Step: w.stepOfT(r.RespT),
						Message: fmt.Sprintf("c%d: response #%d (%s) handed %s although no access answer granted get (latest at t=%d: error=%v code=%s)", c.Idx, id, r.Method, root, a.T, a.IsErr, a.Code)})
				case valid == nil:
					vs = append(vs, Violation{Property: "C04", Class: "data_on_invalidated_grant", Conn: c.Idx, RID: root, T: r.RespT, Step: w.stepOfT(r.RespT),
						Message: fmt.Sprintf("c%d: response #%d (%s) handed %s on the access answer of t=%d, but a %s trigger reached the gateway at t=%d, before the request was made (t=%d)", c.Idx, id, r.Method, root, granting.T, badTrig.Kind, badTrig.T, t0)})
				default:
					if tr := b.triggerBetween(c.CID, name, valid.T, r.RespT, false); tr != nil {
						m.class("trigger_between_grant_and_data")
						m.nontriv = true
					}
					// the grant answered a request that carried the connection's then-current token
					if want, _ := b.tokenAt(c.CID, valid.ReqT); !valid.IsHTTP && !sameToken(want, valid.Token) {
						vs = append(vs, Violation{Property: "C04", Class: "grant_for_stale_token", Conn: c.Idx, RID: root, T: r.RespT, Step: w.stepOfT(r.RespT),
							Message: fmt.Sprintf("c%d: response #%d (%s) handed %s on the access answer of t=%d, whose request (t=%d) carried token %s while the connection's token then was %s", c.Idx, id, r.Method, root, valid.T, valid.ReqT, orNone(valid.Token), orNone(want))})
					}
				}
			}
			// denial => error response
			if (r.Action == "subscribe" || r.Action == "get") && validRIDRef(r.RID) {
				name, q := w.expandRID(c, r.RID)
				prev := b.latestAnswer(c.CID, name, q, r.SentT)
				var first *accessAnswer
				for i := range b.answers {
					a := &b.answers[i]
					if a.CID == c.CID && a.Name == name && a.Query == q && a.T > r.SentT && a.T < r.RespT {
						first = a
						break
					}
				}
				if prev == nil && first != nil && !(first.HasRes && first.Get) && b.accessRequestsIn(c.CID, name, q, 0, r.RespT) == 1 {
					m.class("denied_request_checked")
					exp := first.Code
					if !first.IsErr {
						exp = "system.accessDenied"
					}
					if !r.IsError {
						vs = append(vs, Violation{Property: "C04", Class: "success_despite_denial", Conn: c.Idx, RID: r.RID, T: r.RespT, Step: w.stepOfT(r.RespT),
							Message: fmt.Sprintf("c%d: request #%d %s succeeded although the access request it waited for was answered without a get grant (%s)", c.Idx, id, r.Method, exp)})
					} else if r.Error != nil && r.Error.Code != exp && r.Error.Code != "system.disposedSubscription" {
						vs = append(vs, Violation{Property: "C04", Class: "wrong_denial_error", Conn: c.Idx, RID: r.RID, T: r.RespT, Step: w.stepOfT(r.RespT),
							Message: fmt.Sprintf("c%d: request #%d %s failed with %q, expected the access error %q", c.Idx, id, r.Method, r.Error.Code, exp)})
					}
				}
			}
		}
	}
	// HTTP GET
	for _, h := range w.HTTP {
		if !h.Done || h.Rejected || h.Method != "GET" || h.Code != 200 || h.CID == "" {
			continue
		}
		granted := false
		for _, a := range b.answers {
			if a.CID == h.CID && a.HasRes && a.Get && a.T < h.DoneT {
				granted = true
			}
		}
		m.class("http_get_checked")
		if !granted {
			vs = append(vs, Violation{Property: "C04", Class: "http_data_without_grant", Conn: -1, Step: w.stepOfT(h.DoneT), T: h.DoneT,
				Message: fmt.Sprintf("http h%d GET %s returned 200 without a get grant for its connection", h.ID, h.URL)})
		}
	}
	return append(vs, m.viols...)
}

// CheckStalled runs at the quiescent end of the history, before the end-state
// phase: with nothing outstanding no subscription may still be waiting for an
// access verdict. A resource whose direct subscriptions a failed re-check took
// away but which the client keeps below a parent goes on receiving events.
func (m *MonC06) CheckStalled(w *World) {
	if st := stalledSubscriptions(w); len(st) > 0 {
		m.viols = append(m.viols, Violation{Property: "C06", Class: "subscription_stalled", Step: w.step, Conn: -1, T: w.now(),
			Message: "nothing is outstanding, yet subscriptions still hold events back waiting for an access verdict: " + trunc(strings.Join(st, ", "), 300)})
	}
}

// ---------------------------------------------------------------------------
// C05: call gating and token currency

type MonC05 struct{ baseMon }

func NewMonC05() *MonC05 { m := &MonC05{}; m.init("C05"); return m }

// tokenEventsNotReceived: a token event for the connection of an HTTP request
// that is still being served must reach the gateway (the connection listens to
// its subject until the request is answered): the token most recently set is
// the one the following requests carry.
func tokenEventsNotReceived(w *World) []Violation {
	var vs []Violation
	for _, e := range w.Log() {
		if e.Kind != "mq_ev_drop" || !strings.HasPrefix(e.Subject, "conn.") || !strings.HasSuffix(e.Subject, ".token") {
			continue
		}
		cid := e.Subject[5 : len(e.Subject)-6]
		for _, h := range w.HTTP {
			if h.CID == cid && h.StartT < e.T && (!h.Done || h.DoneT > e.T) {
				vs = append(vs, Violation{Property: "C05", Class: "token_event_not_received", Step: e.Step, T: e.T, Conn: -1,
					Message: fmt.Sprintf("a token event for the connection of %s %s (h%d) was not received although the request was still being served: nothing listened to %s", h.Method, h.URL, h.ID, e.Subject)})
			}
		}
	}
	return vs
}

func (m *MonC05) OnEnd(w *World) []Violation {
	b := BuildAccessBook(w)
	vs := tokenEventsNotReceived(w)
	log := w.Log()
	for i := range log {
		e := &log[i]
		if e.Kind != "mq_req" || e.CID == "" {
			continue
		}
		actor := w.ActorOf(e.CID)
		// token currency
		isAccess := strings.HasPrefix(e.Subject, "access.")
		isCall := strings.HasPrefix(e.Subject, "call.")
		isAuth := strings.HasPrefix(e.Subject, "auth.")
		if isAccess || isCall || isAuth {
			want, _ := b.tokenAt(e.CID, e.T)
			got := tokenOf(e.Payload)
			m.class("token_checked")
			if !sameToken(want, got) {
				vs = append(vs, Violation{Property: "C05", Class: "stale_token", Conn: actor, T: e.T, Step: e.Step,
					Message: fmt.Sprintf("request %s for connection a%d carries token %s but the token most recently set for it is %s", e.Subject, actor, orNone(got), orNone(want))})
			}
		}
		if !isCall {
			continue
		}
		rest := e.Subject[5:]
		j := strings.LastIndexByte(rest, '.')
		if j < 0 {
			continue
		}
		name, method := rest[:j], rest[j+1:]
		m.class("call_checked")
		// decision time: the access answer the client request waited for, or, when a
		// cached verdict is used, the moment the client request was made
		stim := 0
		if e.Step < len(b.stepT) {
			stim = b.stepT[e.Step]
		}
		if actor >= 1000 {
			if h := w.httpByID(actor - 1000); h != nil {
				stim = h.StartT
			}
		} else if actor >= 0 && actor < len(w.Clients) {
			c := w.Clients[actor]
			for _, id := range c.Ref.ReqOrder {
				r := c.Ref.Reqs[id]
				if r.SentT >= e.T || (r.Resp > 0 && r.RespT < e.T) || !(r.Action == "call" || r.Action == "new") {
					continue
				}
				mth := r.CMethod
				if r.Action == "new" {
					mth = "new"
				}
				n2, q2 := w.expandRID(c, r.RID)
				if n2 == name && q2 == e.Query && mth == method {
					stim = r.SentT
				}
			}
		}
		cands := b.answersBefore(e.CID, name, e.Query, e.T)
		var granting, valid *accessAnswer
		var badTrig *trigger
		for _, a := range cands {
			// the verdict reaches the connection through the resource's cache queue,
			// which a pending query event suspends: it takes effect at the unlock
			aT := b.effT(name, a.T)
			if aT != a.T {
				m.class("verdict_delayed_by_query_lock")
			}
			if aT < stim && b.triggerBetween(e.CID, name, aT, stim, false) != nil {
				// an earlier access answer was invalidated before this call was made
				m.nontriv = true
				m.class("trigger_between_earlier_answer_and_call")
			}
			if a.HasRes && canCallRef(a.Call, method) {
				granting = a
				if aT >= stim {
					valid = a
				} else if tr := b.triggerBetween(e.CID, name, aT, stim, true); tr == nil {
					valid = a
					m.class("call_on_cached_verdict")
					if tr2 := b.triggerBetween(e.CID, name, a.ReqT, e.T, false); tr2 != nil {
						m.nontriv = true
						m.class("trigger_between_answer_and_call")
					}
				} else {
					badTrig = tr
				}
			}
		}
		switch {
		case len(cands) == 0:
			vs = append(vs, Violation{Property: "C05", Class: "call_without_access_answer", Conn: actor, T: e.T, Step: e.Step, RID: name,
				Message: fmt.Sprintf("%s forwarded for a%d although no access answer for that connection and resource was received", e.Subject, actor)})
		case granting == nil:
			a := cands[len(cands)-1]
			vs = append(vs, Violation{Property: "C05", Class: "call_not_granted", Conn: actor, T: e.T, Step: e.Step, RID: name,
				Message: fmt.Sprintf("%s forwarded for a%d although no access answer grants %q (latest at t=%d: call=%q, error=%v)", e.Subject, actor, method, a.T, a.Call, a.IsErr)})
		case valid == nil:
			m.nontriv = true
			vs = append(vs, Violation{Property: "C05", Class: "call_on_invalidated_grant", Conn: actor, T: e.T, Step: e.Step, RID: name,
				Message: fmt.Sprintf("%s forwarded for a%d on the access answer of t=%d although a %s trigger reached the gateway at t=%d, before the call was decided (t=%d)", e.Subject, actor, granting.T, badTrig.Kind, badTrig.T, stim)})
		}
	}
	// a client whose governing answer grants must not be refused
	for _, c := range w.Clients {
		if c.CID == "" {
			continue
		}
		for _, id := range c.Ref.ReqOrder {
			r := c.Ref.Reqs[id]
			if r.Resp == 0 || r.Dup || !(r.Action == "call" || r.Action == "new") || !validRIDRef(r.RID) {
				continue
			}
			method := r.CMethod
			if r.Action == "new" {
				method = "new"
			}
			name, q := w.expandRID(c, r.RID)
			if r.IsError && r.Error != nil && r.Error.Code == "system.accessDenied" {
				m.class("denied_call")
				a := b.latestAnswer(c.CID, name, q, r.RespT)
				if a != nil && a.HasRes && canCallRef(a.Call, method) && a.T > r.SentT && b.accessRequestsIn(c.CID, name, q, 0, r.RespT) == 1 {
					vs = append(vs, Violation{Property: "C05", Class: "call_refused_despite_grant", Conn: c.Idx, RID: r.RID, T: r.RespT, Step: w.stepOfT(r.RespT),
						Message: fmt.Sprintf("c%d: request #%d %s was refused with system.accessDenied although the access answer it waited for (t=%d, call=%q) grants %q", c.Idx, id, r.Method, a.T, a.Call, method)})
				}
			}
		}
	}
	return append(vs, m.viols...)
}

func orNone(s string) string {
	if s == "" {
		return "<none>"
	}
	return s
}

// ---------------------------------------------------------------------------
// C06: revocation

type MonC06 struct {
	baseMon
	// queueAt[step][cid|rid] = queue flag of that connection's subscription at the
	// quiescent end of the step (hooks): tells whether a trigger in the next step
	// meets a subscription that is holding events back
	queueAt map[int]map[string]int
}

func NewMonC06() *MonC06 { m := &MonC06{queueAt: map[int]map[string]int{}}; m.init("C06"); return m }

func (m *MonC06) OnStepEnd(w *World, step int) {
	if q := queueFlags(w); q != nil {
		m.queueAt[step] = q
	}
}

// deferredBit marks, in queueAt, a subscription whose access re-check is
// deferred until its queued events are released (flagReaccess).
const deferredBit = 1 << 8

// deferredBefore reports whether, at the start of the given step, the
// subscription still had a deferred re-check (false without hooks).
func (m *MonC06) deferredBefore(step int, cid, rid string) bool {
	return m.queueAt[step-1][cid+"|"+rid]&deferredBit != 0
}

// directAt returns the client's direct count for rid at log time t (frames before t).
func directAt(c *Client, rid string, t int) int {
	n := 0
	for _, d := range c.Ref.DirectLog {
		if d.RID == rid && d.T < t {
			n = d.After
		}
	}
	return n
}

func (m *MonC06) OnEnd(w *World) []Violation {
	b := BuildAccessBook(w)
	var vs []Violation
	log := w.Log()
	c3 := NewMonC03()
	for i := range log {
		c3.OnLog(w, &log[i])
	}
	for ti := range b.triggers {
		tr := &b.triggers[ti]
		if !tr.Oblig {
			m.class("token_after_null_no_obligation")
			continue
		}
		for _, c := range w.Clients {
			if c.CID == "" || !c.Dialed {
				continue
			}
			rids := map[string]bool{}
			for _, d := range c.Ref.DirectLog {
				rids[d.RID] = true
			}
			var list []string
			for r := range rids {
				list = append(list, r)
			}
			sort.Strings(list)
			for _, rid := range list {
				// pendingOnly: the client's subscribe was outstanding at the trigger and
				// later succeeded; the gateway already held the direct subscription
				// (decision-time validity, DESIGN 3.6). Judged for the leak window only.
				// (A resource response creates its subscription only when the call is
				// answered, which the client cannot date; not covered.)
				pendingOnly := false
				if directAt(c, rid, tr.T) <= 0 {
					for _, id := range c.Ref.ReqOrder {
						q := c.Ref.Reqs[id]
						if q.SentT < tr.T && q.Resp > 0 && q.RespT > tr.T && !q.IsError && !q.Dup &&
							q.Action == "subscribe" && q.RID == rid {
							pendingOnly = true
						}
					}
					if !pendingOnly {
						continue
					}
					m.class("trigger_while_subscribe_outstanding")
				}
				// a direct subscription whose resource failed to load is an error
				// placeholder: there is nothing to protect and no events to hold back
				isErr := false
				for _, h := range c.Ref.Handovers {
					if h.RID == rid && h.T < tr.T && h.Fresh {
						isErr = h.IsErr
					}
				}
				if isErr {
					m.class("error_placeholder_no_obligation")
					continue
				}
				name, q := w.expandRID(c, rid)
				if !tr.affects(c.CID, name) {
					continue
				}
				m.class("obligation_" + tr.Kind)
				// the re-request
				var rq *LogEntry
				// an access request for the subscription that is in flight when the
				// trigger arrives serves the re-check (DESIGN 3.6: a trigger between
				// request and answer does not invalidate the answer)
				fullRID := name
				if q != "" {
					fullRID += "?" + q
				}
				// (the deferred re-check joins a request that is in flight when the
				// events are released; but if that request's answer arrives first - the
				// re-check is still deferred at the start of the answer's step - a new
				// request has to follow the answer)
				from := tr.T
				for k := range b.answers {
					a := &b.answers[k]
					if a.CID == c.CID && a.Name == name && a.Query == q && a.ReqT < tr.T && a.T > tr.T {
						if m.queueAt[w.stepOfT(tr.T)-1][c.CID+"|"+fullRID]&2 != 0 {
							// the subscription was already waiting for the verdict of an earlier
							// re-check when the trigger came: that request cannot serve this
							// trigger (for a token event it carries the old token); the new
							// re-check is deferred until its answer and follows it
							m.class("trigger_during_pending_recheck")
							if a.T > from {
								from = a.T
							}
							continue
						}
						if b.effT(name, a.T) != a.T {
							// the answer waited behind a query-event lock and is processed at
							// the unlock together with whatever else waited there (the get
							// answer whose hand-over ends the deferral may come first): the
							// order inside that step is not visible, riding is accepted
							rq = &log[a.ReqT]
							m.class("recheck_rides_on_answer_behind_lock")
							break
						}
						if w.stepOfT(a.T) > w.stepOfT(tr.T) && m.deferredBefore(w.stepOfT(a.T), c.CID, fullRID) {
							// (not the last word: a call made before the subscription existed
							// has an access request of its own in flight, and the
							// subscription's own request, answered later, can still be joined)
							m.class("recheck_still_deferred_at_answer")
							from = a.T
							continue
						}
						rq = &log[a.ReqT]
						m.class("recheck_rides_on_pending_request")
						break
					}
				}
				for j := tr.T + 1; j < len(log) && rq == nil; j++ {
					e := &log[j]
					if e.Kind == "mq_req" && e.Subject == "access."+name && e.CID == c.CID && e.Query == q {
						// a request another client request (a call) made while the re-check was
						// still deferred behind held events is not the re-check: its answer
						// finds the re-check still deferred, and the re-check follows the
						// release (or is voided by then)
						if at := func() int {
							for k := range b.answers {
								if a := &b.answers[k]; a.ReqT == e.T {
									return a.T
								}
							}
							return -1
						}(); at >= 0 && w.stepOfT(at) > w.stepOfT(tr.T) && m.deferredBefore(w.stepOfT(at), c.CID, fullRID) && m.deferredBefore(w.stepOfT(at)+1, c.CID, fullRID) {
							m.class("request_while_recheck_deferred")
							continue
						}
						if e.T <= from {
							// requested after the trigger but before the answer that found the
							// re-check still deferred: it serves if it is still in flight then
							// (the released re-check joins it)
							ansT := len(log)
							for k := range b.answers {
								if a := &b.answers[k]; a.ReqT == e.T {
									ansT = a.T
								}
							}
							if ansT <= from {
								continue
							}
						}
						rq = e
						break
					}
				}
				// when did the direct count drop to zero (if at all), and why
				zeroT, zeroKind := -1, ""
				for _, d := range c.Ref.DirectLog {
					if d.RID == rid && d.T > tr.T && d.After <= 0 {
						zeroT, zeroKind = d.T, d.Kind
						break
					}
				}
				closedT := -1
				for _, e := range log {
					if (e.Kind == "cclose" || e.Kind == "eof") && e.Conn == c.Idx {
						closedT = e.T
						break
					}
				}
				if rq == nil && pendingOnly {
					// the subscribe that was outstanding succeeded: unless what it handed
					// over is an error placeholder, the deferred re-check has to follow
					errRoot := false
					for _, h := range c.Ref.Handovers {
						if h.RID == rid && h.T > tr.T && h.Fresh {
							errRoot = h.IsErr
							break
						}
					}
					if errRoot {
						m.class("obligation_void")
						continue
					}
				}
				if rq == nil {
					if closedT >= 0 || (zeroT >= 0 && zeroKind != "unsubev") || w.mq.PendingCount() > 0 {
						m.class("obligation_void")
						continue
					}
					if zeroKind == "unsubev" {
						// revoked through another path (e.g. delete event); nothing left to re-check
						m.class("obligation_void")
						continue
					}
					vs = append(vs, Violation{Property: "C06", Class: "no_reaccess", Conn: c.Idx, RID: rid, T: tr.T, Step: w.stepOfT(tr.T),
						Message: fmt.Sprintf("c%d holds a direct subscription to %s; a %s trigger reached the gateway at t=%d but access was never re-requested", c.Idx, rid, tr.Kind, tr.T)})
					continue
				}
				if (zeroT >= 0 && zeroT < rq.T) || (closedT >= 0 && closedT < rq.T) {
					m.class("obligation_void")
					continue
				}
				// token currency of the re-request
				want, _ := b.tokenAt(c.CID, rq.T)
				if got := tokenOf(rq.Payload); !sameToken(want, got) {
					vs = append(vs, Violation{Property: "C06", Class: "reaccess_stale_token", Conn: c.Idx, RID: rid, T: rq.T, Step: rq.Step,
						Message: fmt.Sprintf("c%d: access re-request for %s after the %s trigger carries token %s, current token is %s", c.Idx, rid, tr.Kind, orNone(got), orNone(want))})
				}
				// the verdict: several access requests for the same connection and resource may
				// be in flight (other requests on the rid share or add their own); the earliest
				// answer bounds the no-leak window, the latest decides about revocation
				var ans, first *accessAnswer
				mixed := false
				for k := range b.answers {
					a := &b.answers[k]
					if a.CID == c.CID && a.Name == name && a.Query == q && a.T > tr.T && (a.ReqT >= rq.T) {
						if first == nil {
							first = a
						}
						if ans != nil && (ans.HasRes && ans.Get) != (a.HasRes && a.Get) {
							mixed = true
						}
						ans = a
					}
				}
				if mixed {
					// verdicts of several overlapping access requests disagree and cannot be
					// attributed to the re-check from the boundary alone
					m.class("mixed_verdicts_skipped")
					continue
				}
				if ans == nil {
					m.class("verdict_never_arrived")
					continue
				}
				leakEnd := first.T
				// no event that reached the gateway after the trigger may be framed before the verdict
				leaked := false
				for _, ev := range c.Ref.Events {
					if ev.RID != rid || ev.T <= tr.T || ev.T >= leakEnd {
						continue
					}
					if zeroT >= 0 && ev.T > zeroT {
						// the direct subscription is gone (the client unsubscribed); what it
						// still receives it receives for an indirect hold
						continue
					}
					dm := asMap(ev.Data)
					if dm == nil {
						continue
					}
					sn, ok := dm["seq"].(json.Number)
					if !ok {
						continue
					}
					seq, _ := sn.Int64()
					del := c3.delivered[name]
					dts := c3.deliveredT[name]
					for x := range del {
						if del[x] == int(seq) && dts[x] > tr.T {
							leaked = true
							vs = append(vs, Violation{Property: "C06", Class: "event_leaked_before_verdict", Conn: c.Idx, RID: rid, T: ev.T, Step: w.stepOfT(ev.T),
								Message: fmt.Sprintf("c%d: custom event seq %d for %s reached the gateway at t=%d, after the %s trigger (t=%d), and was delivered at t=%d before the new access verdict (t=%d)", c.Idx, seq, rid, dts[x], tr.Kind, tr.T, ev.T, leakEnd)})
						}
					}
				}
				_ = leaked
				for x, dt := range c3.deliveredT[name] {
					_ = x
					if dt > tr.T && dt < leakEnd {
						m.nontriv = true
						m.class("events_inside_recheck_window")
						break
					}
				}
				if pendingOnly {
					continue
				}
				if !(ans.HasRes && ans.Get) {
					m.class("verdict_denial")
					// the verdict travels through the resource's cache queue, which is
					// suspended while query requests are outstanding
					vt := b.effT(name, ans.T)
					if vt > ans.T {
						m.class("verdict_delayed_by_query_lock")
					}
					if (zeroT >= 0 && zeroT <= vt && zeroKind != "unsubev") || (closedT >= 0 && closedT <= vt) {
						m.class("obligation_void")
						continue
					}
					// unsubscribe event with the reason, in the step of the verdict
					exp := ans.Code
					if !ans.IsErr {
						exp = "system.accessDenied"
					}
					found := false
					for _, ev := range c.Ref.Events {
						if ev.RID == rid && ev.Event == "unsubscribe" && ev.T > ans.T && w.stepOfT(ev.T) == w.stepOfT(vt) {
							found = true
							code := ""
							if rm := asMap(asMap(ev.Data)["reason"]); rm != nil {
								code, _ = rm["code"].(string)
							}
							if code != exp {
								vs = append(vs, Violation{Property: "C06", Class: "wrong_unsubscribe_reason", Conn: c.Idx, RID: rid, T: ev.T, Step: w.stepOfT(ev.T),
									Message: fmt.Sprintf("c%d: unsubscribe event for %s carries reason %q, the access verdict was %q", c.Idx, rid, code, exp)})
							}
						}
					}
					if !found && closedT < 0 {
						// a later trigger's re-check may already have been merged: accept an unsubscribe event any time after the verdict
						later := false
						for _, ev := range c.Ref.Events {
							if ev.RID == rid && ev.Event == "unsubscribe" && ev.T > tr.T {
								later = true
							}
						}
						if !later {
							vs = append(vs, Violation{Property: "C06", Class: "not_revoked", Conn: c.Idx, RID: rid, T: ans.T, Step: w.stepOfT(ans.T),
								Message: fmt.Sprintf("c%d: after the %s trigger (t=%d) access to %s was re-requested and answered without a get grant (t=%d, %s) but no unsubscribe event was sent", c.Idx, tr.Kind, tr.T, rid, ans.T, exp)})
						}
					}
				} else {
					m.class("verdict_grant")
				}
			}
		}
	}
	// overlapping triggers
	for i := 1; i < len(b.triggers); i++ {
		if b.triggers[i].T-b.triggers[i-1].T < 6 {
			m.class("triggers_close_together")
		}
	}
	return append(vs, m.viols...)
}
