//go:build verif

package sim

import (
	"fmt"
	"strings"
)

func (m *MonC13) snapshot(w *World) {
	m.preQueries, m.preLocked = nil, nil
	if !w.started || w.Failed != "" || w.Deadlock != "" {
		return
	}
	m.preQueries = map[string][]string{}
	m.preLocked = map[string]bool{}
	m.preRaw = map[string]map[string]bool{}
	m.preGroup = map[string]map[string]int{}
	m.preSubs = liveSubs(w)
	m.preInSync = map[string]bool{}
	m.preSettled = map[string]bool{}
	for _, vc := range w.ConnSnapshot() {
		for _, s := range vc.Subs {
			if s.QueueFlag == 0 && s.State == 5 {
				m.preSettled[vc.CID+"|"+s.RID] = true
			}
		}
	}
	for _, c := range w.Clients {
		for _, rid := range c.Ref.HeldRIDs() {
			if !strings.Contains(rid, "?") {
				continue
			}
			r := c.Ref.Held[rid]
			typ, em, ec, ok := w.expectedFor(c, rid)
			if !ok || typ != r.Type {
				continue
			}
			if typ == 'm' {
				m.preInSync[fmt.Sprintf("%d|%s", c.Idx, rid)] = jsonOf(em) == jsonOf(r.Model) || (len(em) == 0 && len(r.Model) == 0)
			} else {
				m.preInSync[fmt.Sprintf("%d|%s", c.Idx, rid)] = jsonOf(ec) == jsonOf(r.Coll) || (len(ec) == 0 && len(r.Coll) == 0)
			}
		}
	}
	for _, e := range w.CacheSnapshot() {
		raw := map[string]bool{}
		group := map[string]int{}
		for i, r := range e.Resources {
			if r.State >= 3 && !r.Resetting {
				raw[r.Query] = true
				group[r.Query] = i
				for _, l := range r.Links {
					raw[l] = true
					group[l] = i
				}
			}
		}
		m.preRaw[e.Name] = raw
		m.preGroup[e.Name] = group
		set := map[string]bool{}
		for _, r := range e.Resources {
			if r.Query != "" && r.State >= 3 {
				set[r.Query] = true
			}
		}
		m.preQueries[e.Name] = sortedKeys(set)
		m.preLocked[e.Name] = e.Locked || e.QueueLen > 0
	}
}

// liveSubs returns, per rid, the identities of the connection subscriptions
// that are neither disposed nor deleted.
func liveSubs(w *World) map[string]map[uintptr]bool {
	out := map[string]map[uintptr]bool{}
	for _, c := range w.ConnSnapshot() {
		for _, s := range c.Subs {
			if s.State == 0 || s.State == 6 || s.Failed {
				// (a subscription whose resource failed to load holds nothing in the cache)
				continue
			}
			if out[s.RID] == nil {
				out[s.RID] = map[uintptr]bool{}
			}
			out[s.RID][s.Ptr] = true
		}
	}
	return out
}

// heldThroughout reports whether a connection subscription of the cached
// query resource that name?query was linked to before the step is still the
// same object after the step: then the cache cannot have dropped the resource
// for lack of subscribers in between.
func (m *MonC13) heldThroughout(w *World, name, query string) bool {
	g, ok := m.preGroup[name][query]
	if !ok {
		return false
	}
	post := liveSubs(w)
	for q, gi := range m.preGroup[name] {
		if gi != g {
			continue
		}
		rid := name
		if q != "" {
			rid += "?" + q
		}
		for p := range m.preSubs[rid] {
			if post[rid][p] {
				return true
			}
		}
	}
	return false
}

// queryAnswerApplied: a query request answered with events (or a full model or
// collection) for a query resource that was loaded and not being re-fetched
// before the step: at the end of the step every client that holds a resource id
// of that normalised query, and is not holding events back for it, has the
// state the answer announced - not only after some later reset.
func (m *MonC13) queryAnswerApplied(w *World, step int, op Op) {
	name := w.qevSubjects[op.S]
	if name == "" || !m.preRaw[name][op.Q] || w.Failed != "" || w.Deadlock != "" {
		return
	}
	answered, notFound := false, false
	for _, e := range w.Log() {
		if e.Step == step && e.Kind == "mq_complete" && e.Subject == op.S && e.Query == op.Q && e.Err == "" {
			answered = true
			notFound = strings.Contains(string(e.Payload), `"code":"system.notFound"`)
		}
	}
	if !answered {
		return
	}
	d := w.Svc.defFor(name, w.CIDs())
	if d == nil {
		return
	}
	if notFound {
		// "... or a delete on system.notFound": every rid of the answered query that
		// a client held under a settled subscription before the step has had its
		// delete event by the end of the step
		for _, c := range w.Clients {
			if !c.Dialed || c.EOF || c.Closed || c.CID == "" {
				continue
			}
			for _, rid := range c.Ref.HeldRIDs() {
				n, q := splitRID(strings.Replace(rid, "{cid}", c.CID, -1))
				if n != name {
					continue
				}
				norm, ok := d.Norm(q)
				if !ok || norm != op.Q {
					continue
				}
				full := n
				if q != "" {
					full += "?" + q
				}
				r := c.Ref.Held[rid]
				if r.Type == 'e' || !m.preSettled[c.CID+"|"+full] {
					continue
				}
				m.class("query_answer_not_found_checked")
				if !r.Deleted {
					m.viols = append(m.viols, Violation{Property: "C13", Class: "delete_not_delivered", Step: step, Conn: c.Idx, RID: rid, T: w.now(),
						Message: fmt.Sprintf("c%d: the query request for %s?%s was answered with system.notFound in this step, but %s, held under a settled subscription, has received no delete event", c.Idx, name, op.Q, rid)})
					return
				}
			}
		}
		return
	}
	queueing := map[string]bool{} // cid|rid
	// settled: the gateway still has a sent subscription with an empty queue for
	// the rid. A copy the event itself made unreachable (it replaced the last
	// reference to a cycle the rid was part of) is dropped on both sides without
	// an event of its own and is not looked at
	settled := map[string]bool{}
	for _, vc := range w.ConnSnapshot() {
		for _, s := range vc.Subs {
			if s.QueueFlag != 0 || s.State != 5 {
				queueing[vc.CID+"|"+s.RID] = true
			} else {
				settled[vc.CID+"|"+s.RID] = true
			}
		}
	}
	for _, c := range w.Clients {
		if !c.Dialed || c.EOF || c.Closed || c.CID == "" {
			continue
		}
		for _, rid := range c.Ref.HeldRIDs() {
			n, q := splitRID(strings.Replace(rid, "{cid}", c.CID, -1))
			if n != name {
				continue
			}
			norm, ok := d.Norm(q)
			if !ok || norm != op.Q {
				continue
			}
			r := c.Ref.Held[rid]
			full := n
			if q != "" {
				full += "?" + q
			}
			if r.Type == 'e' || r.Deleted || queueing[c.CID+"|"+full] {
				continue
			}
			if !settled[c.CID+"|"+full] {
				m.class("query_answer_for_dropped_subscription_skipped")
				continue
			}
			// only a client that was in step with the service before the answer: a
			// copy that is stale for another reason (a failed re-fetch) is not put
			// right by this answer's events
			if !m.preInSync[fmt.Sprintf("%d|%s", c.Idx, rid)] {
				m.class("query_answer_for_stale_copy_skipped")
				continue
			}
			typ, em, ec, ok := w.expectedFor(c, rid)
			if !ok || typ != r.Type {
				continue
			}
			m.class("query_answer_application_checked")
			same := false
			if typ == 'm' {
				same = jsonOf(em) == jsonOf(r.Model) || (len(em) == 0 && len(r.Model) == 0)
			} else {
				same = jsonOf(ec) == jsonOf(r.Coll) || (len(ec) == 0 && len(r.Coll) == 0)
			}
			if !same {
				got, exp := jsonOf(r.Model), jsonOf(em)
				if typ == 'c' {
					got, exp = jsonOf(r.Coll), jsonOf(ec)
				}
				m.viols = append(m.viols, Violation{Property: "C13", Class: "diverged", Step: step, Conn: c.Idx, RID: rid, T: w.now(),
					Message: fmt.Sprintf("c%d: the query request for %s?%s was answered in this step, but at its end the client's copy of %s is %s, the answer announced %s", c.Idx, name, op.Q, rid, got, exp)})
				return
			}
		}
	}
}
