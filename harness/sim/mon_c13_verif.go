//go:build verif

package sim

func (m *MonC13) snapshot(w *World) {
	m.preQueries, m.preLocked = nil, nil
	if !w.started || w.Failed != "" || w.Deadlock != "" {
		return
	}
	m.preQueries = map[string][]string{}
	m.preLocked = map[string]bool{}
	m.preRaw = map[string]map[string]bool{}
	for _, e := range w.CacheSnapshot() {
		raw := map[string]bool{}
		for _, r := range e.Resources {
			if r.State >= 3 && !r.Resetting {
				raw[r.Query] = true
				for _, l := range r.Links {
					raw[l] = true
				}
			}
		}
		m.preRaw[e.Name] = raw
		set := map[string]bool{}
		for _, r := range e.Resources {
			if r.Query != "" && r.State >= 3 {
				set[r.Query] = true
			}
		}
		m.preQueries[e.Name] = sortedKeys(set)
		m.preLocked[e.Name] = e.Locked || e.QueueLen > 0
	}
}
