//go:build verif

package sim

func (m *MonC13) snapshot(w *World) {
	m.preQueries, m.preLocked = nil, nil
	if !w.started || w.Failed != "" || w.Deadlock != "" {
		return
	}
	m.preQueries = map[string][]string{}
	m.preLocked = map[string]bool{}
	m.preRaw = map[string]map[string]bool{}
	m.preGroup = map[string]map[string]int{}
	m.preSubs = liveSubs(w)
	for _, e := range w.CacheSnapshot() {
		raw := map[string]bool{}
		group := map[string]int{}
		for i, r := range e.Resources {
			if r.State >= 3 && !r.Resetting {
				raw[r.Query] = true
				group[r.Query] = i
				for _, l := range r.Links {
					raw[l] = true
					group[l] = i
				}
			}
		}
		m.preRaw[e.Name] = raw
		m.preGroup[e.Name] = group
		set := map[string]bool{}
		for _, r := range e.Resources {
			if r.Query != "" && r.State >= 3 {
				set[r.Query] = true
			}
		}
		m.preQueries[e.Name] = sortedKeys(set)
		m.preLocked[e.Name] = e.Locked || e.QueueLen > 0
	}
}

// liveSubs returns, per rid, the identities of the connection subscriptions
// that are neither disposed nor deleted.
func liveSubs(w *World) map[string]map[uintptr]bool {
	out := map[string]map[uintptr]bool{}
	for _, c := range w.ConnSnapshot() {
		for _, s := range c.Subs {
			if s.State == 0 || s.State == 6 {
				continue
			}
			if out[s.RID] == nil {
				out[s.RID] = map[uintptr]bool{}
			}
			out[s.RID][s.Ptr] = true
		}
	}
	return out
}

// heldThroughout reports whether a connection subscription of the cached
// query resource that name?query was linked to before the step is still the
// same object after the step: then the cache cannot have dropped the resource
// for lack of subscribers in between.
func (m *MonC13) heldThroughout(w *World, name, query string) bool {
	g, ok := m.preGroup[name][query]
	if !ok {
		return false
	}
	post := liveSubs(w)
	for q, gi := range m.preGroup[name] {
		if gi != g {
			continue
		}
		rid := name
		if q != "" {
			rid += "?" + q
		}
		for p := range m.preSubs[rid] {
			if post[rid][p] {
				return true
			}
		}
	}
	return false
}
