package sim

import (
	"encoding/json"
	"fmt"
	"sort"
	"strings"
)

// ---------------------------------------------------------------------------
// C13: query resources

type MonC13 struct {
	baseMon
	loaded     map[string]int // name?rawquery -> log time of the successful get answer in this incarnation
	resetAt    map[string]int // name -> log time of the last matching system.reset / delete
	aliasSeen  bool
	qevMulti   bool
	preQueries map[string][]string // name -> loaded normalised queries before the step (hooks)
	preLocked  map[string]bool
	preRaw     map[string]map[string]bool  // name -> raw queries already fetched and linked (hooks)
	preGroup   map[string]map[string]int   // name -> raw query -> index of the cached query resource it is linked to
	preSubs    map[string]map[uintptr]bool // rid -> identities of the live connection subscriptions before the step
	preSettled map[string]bool             // cid|rid -> the gateway had a sent subscription with an empty queue before the step
	preInSync  map[string]bool             // conn|rid -> the client's copy equalled the announced state before the step
}

func NewMonC13() *MonC13 {
	m := &MonC13{loaded: map[string]int{}, resetAt: map[string]int{}}
	m.init("C13")
	return m
}

func (m *MonC13) OnLog(w *World, e *LogEntry) {
	switch e.Kind {
	case "mq_unsub":
		if strings.HasPrefix(e.Subject, "event.") {
			n := e.Subject[6:]
			for k := range m.loaded {
				if strings.HasPrefix(k, n+"?") {
					delete(m.loaded, k)
				}
			}
		}
	case "mq_ev":
		if e.Subject == "system.reset" {
			var p struct {
				Resources []string `json:"resources"`
			}
			if json.Unmarshal(e.Payload, &p) == nil {
				for k := range m.loaded {
					n := k[:strings.IndexByte(k, '?')]
					for _, pat := range p.Resources {
						if RefPatternMatch(pat, n) {
							delete(m.loaded, k)
						}
					}
				}
			}
		}
		if strings.HasPrefix(e.Subject, "event.") && strings.HasSuffix(e.Subject, ".delete") {
			n := e.Subject[6 : len(e.Subject)-7]
			for k := range m.loaded {
				if strings.HasPrefix(k, n+"?") {
					delete(m.loaded, k)
				}
			}
		}
	case "mq_complete":
		if strings.HasPrefix(e.Subject, "get.") && e.Err == "" {
			var r struct {
				Result *struct {
					Query string `json:"query"`
				} `json:"result"`
				Error json.RawMessage `json:"error"`
			}
			n := e.Subject[4:]
			if json.Unmarshal(e.Payload, &r) == nil && r.Result != nil && r.Error == nil {
				m.loaded[n+"?"+e.Query] = e.T
				m.loaded[n+"?"+r.Result.Query] = e.T
				if r.Result.Query != e.Query {
					m.aliasSeen = true
				}
			} else if strings.Contains(string(e.Payload), "system.notFound") {
				for k := range m.loaded {
					if strings.HasPrefix(k, n+"?") {
						delete(m.loaded, k)
					}
				}
			}
		}
		if strings.HasPrefix(e.Subject, "_EVQ.") && strings.Contains(string(e.Payload), "system.notFound") {
			n := w.qevSubjects[e.Subject]
			delete(m.loaded, n+"?"+e.Query)
			for k := range m.loaded {
				if strings.HasPrefix(k, n+"?") {
					// aliases of the deleted normalised query are unknown here: forget them all
					delete(m.loaded, k)
				}
			}
		}
	}
}

func (m *MonC13) OnStepEnd(w *World, step int) {
	defer m.snapshot(w)
	if step >= len(w.Script) || m.preQueries == nil {
		return
	}
	op := w.Script[step]
	if op.K != "sysreset" && m.preRaw != nil {
		released := map[string]bool{}
		for _, e := range w.Log() {
			if e.Step == step && e.Kind == "mq_unsub" && strings.HasPrefix(e.Subject, "event.") {
				released[e.Subject[6:]] = true // evicted (and possibly fetched anew) within this step
			}
			if e.Step == step && e.Kind == "mq_req" && strings.HasPrefix(e.Subject, "get.") {
				n := e.Subject[4:]
				// A query resource without subscribers is dropped from the cache at
				// once, so the get is redundant only if some subscription of the
				// resource lived through the whole step.
				if m.preRaw[n][e.Query] && !m.preLocked[n] && !released[n] && w.Cfg.ResetThrottle == 0 && m.heldThroughout(w, n, e.Query) {
					m.viols = append(m.viols, Violation{Property: "C13", Class: "redundant_get", Step: e.Step, T: e.T, Conn: -1,
						Message: fmt.Sprintf("get.%s with query %q requested at t=%d although that query was already fetched and linked in the cache", n, e.Query, e.T)})
				}
			}
		}
	}
	if op.K == "ans" && strings.HasPrefix(op.S, "_EVQ.") && (op.O == "ok" || (op.O == "err" && op.P == "system.notFound")) && !strings.HasPrefix(op.Key, "inject:") {
		m.queryAnswerApplied(w, step, op)
	}
	if op.K != "qevent" {
		return
	}
	if m.preLocked[op.S] {
		m.class("qevent_while_locked")
		return
	}
	log := w.Log()
	got := map[string]int{}
	delivered := false
	for i := len(log) - 1; i >= 0 && log[i].Step >= step; i-- {
		e := log[i]
		if e.Step != step {
			continue
		}
		if e.Kind == "mq_ev" {
			delivered = true
		}
		if e.Kind == "mq_req" && strings.HasPrefix(e.Subject, "_EVQ.") {
			got[e.Query]++
		}
	}
	if !delivered {
		return
	}
	want := m.preQueries[op.S]
	if len(want) >= 2 {
		m.qevMulti = true
	}
	m.class("qevent_checked")
	for _, q := range want {
		if got[q] != 1 {
			m.violate(w, "query_request_count", "query event on %s: %d query requests for the cached normalised query %q (expected exactly one); cached: %v, requested: %v", op.S, got[q], q, want, got)
		}
		delete(got, q)
	}
	for q, n := range got {
		if n > 0 {
			m.violate(w, "query_request_unexpected", "query event on %s: %d query request(s) for %q which is not a loaded normalised query (cached: %v)", op.S, n, q, want)
		}
	}
}

func (m *MonC13) OnEnd(w *World) []Violation {
	// no get.<n> while query requests for n are outstanding
	b := BuildAccessBook(w)
	for _, e := range w.Log() {
		if e.Kind == "mq_req" && strings.HasPrefix(e.Subject, "get.") {
			n := e.Subject[4:]
			for _, iv := range b.locks[n] {
				if e.T > iv[0] && e.T < iv[1] {
					// the first query request of the window opens it; gets issued by the same
					// handling before the lock took effect cannot exist, the queue is single-threaded
					m.viols = append(m.viols, Violation{Property: "C13", Class: "get_during_query_lock", Step: e.Step, T: e.T, Conn: -1,
						Message: fmt.Sprintf("get.%s (query %q) was requested at t=%d while query requests for %s were outstanding (t=%d..%d)", n, e.Query, e.T, n, iv[0], iv[1])})
				}
			}
		}
	}
	if m.aliasSeen {
		m.class("aliasing_queries")
	}
	if m.qevMulti {
		m.class("qevent_with_multiple_cached_queries")
	}
	if m.aliasSeen && m.qevMulti {
		m.nontriv = true
	}
	return m.viols
}

func sortedKeys(m map[string]bool) []string {
	var r []string
	for k := range m {
		r = append(r, k)
	}
	sort.Strings(r)
	return r
}
