//go:build !verif

package sim

func (m *MonC09) checkCounts(w *World) {}
