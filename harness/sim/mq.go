package sim

import (
	"encoding/json"
	"errors"
	"sort"
	"strings"
	"sync"
	"sync/atomic"

	"github.com/resgateio/resgate/server/mq"
)

// MockMQ implements mq.Client. It never calls back synchronously: every
// completion and every delivered event runs on the single listener goroutine,
// as the real adapter does. All calls are appended to the world's boundary log.
type MockMQ struct {
	closeEvent *closeEvent // delivered from within Close (see DeliverDuringClose)
	closeHook  func()      // called from within Close, outside the lock
	w          *World

	mu        sync.Mutex
	connected bool
	lost      bool
	closedCb  func(error)
	subs      map[string]*mqSub
	pending   []*PendingReq
	seq       int

	tasks chan func()
	quit  chan struct{}

	// holdCh, while set, makes SendRequest return only after Release: the
	// request is registered and logged, the caller stays inside the call (a
	// messaging client whose publish blocks on a full buffer)
	holdCh chan struct{}
	heldN  int32

	// Limits mirroring the adapter's guards (parameters of the mock, not oracles).
	MaxReqSubject int // len(subj)+29 > 4096 => too long
	MaxSubNS      int
}

type mqSub struct {
	m    *MockMQ
	ns   string
	cb   mq.Response
	live bool
}

// PendingReq is a request sent by the gateway that the script has not completed yet.
type PendingReq struct {
	Seq     int
	Subject string
	Payload []byte
	CID     string
	Query   string
	Token   json.RawMessage
	HasTok  bool
	IsHTTP  bool
	At      int // logical time of issue
	Step    int
	cb      mq.Response
}

var errMQClosed = errors.New("mock mq: connection closed")

func newMockMQ(w *World) *MockMQ {
	m := &MockMQ{w: w, MaxReqSubject: 4096 - 29, MaxSubNS: 4094}
	return m
}

func (m *MockMQ) listen(tasks chan func(), quit chan struct{}) {
	for f := range tasks {
		f()
	}
	close(quit)
}

// Connect implements mq.Client.
func (m *MockMQ) Connect() error {
	m.mu.Lock()
	defer m.mu.Unlock()
	m.subs = make(map[string]*mqSub)
	m.pending = nil
	m.connected = true
	m.lost = false
	m.tasks = make(chan func(), 65536)
	m.quit = make(chan struct{})
	go m.listen(m.tasks, m.quit)
	m.w.logMQ(LogEntry{Kind: "mq_connect"})
	return nil
}

// IsClosed implements mq.Client.
func (m *MockMQ) IsClosed() bool {
	m.mu.Lock()
	defer m.mu.Unlock()
	return !m.connected
}

// Close implements mq.Client.
func (m *MockMQ) Close() {
	m.mu.Lock()
	if !m.connected {
		m.mu.Unlock()
		return
	}
	m.connected = false
	tasks := m.tasks
	quit := m.quit
	m.tasks = nil
	m.w.logMQ(LogEntry{Kind: "mq_close"})
	// A messaging client keeps delivering what it has received until Close
	// returns: one last event may be handed to its callback from within Close.
	if ev := m.closeEvent; ev != nil {
		m.closeEvent = nil
		i := strings.LastIndexByte(ev.Subject, '.')
		if i > 0 {
			if s, ok := m.subs[ev.Subject[:i]]; ok && s.live {
				m.w.logMQ(LogEntry{Kind: "mq_ev", Subject: ev.Subject, Payload: ev.Data})
				subject, payload := ev.Subject, ev.Data
				tasks <- func() { s.cb(subject, payload, nil) }
			}
		}
	}
	hook := m.closeHook
	m.closeHook = nil
	m.mu.Unlock()
	if hook != nil {
		hook() // runs while the service is stopping: its messaging client is closing
	}
	close(tasks)
	<-quit
}

// DeliverDuringClose arranges for one event to be delivered from within the
// next Close call.
func (m *MockMQ) DeliverDuringClose(subject string, payload []byte) {
	m.mu.Lock()
	m.closeEvent = &closeEvent{subject, payload}
	m.mu.Unlock()
}

type closeEvent struct {
	Subject string
	Data    []byte
}

// SetClosedHandler implements mq.Client.
func (m *MockMQ) SetClosedHandler(cb func(error)) {
	m.mu.Lock()
	m.closedCb = cb
	m.mu.Unlock()
}

func (m *MockMQ) post(f func()) bool {
	m.mu.Lock()
	t := m.tasks
	ok := m.connected && t != nil
	if ok {
		// Posting under the lock so Close cannot close the channel in between.
		t <- f
	}
	m.mu.Unlock()
	return ok
}

// SendRequest implements mq.Client.
func (m *MockMQ) SendRequest(subj string, payload []byte, cb mq.Response) {
	m.mu.Lock()
	if !m.connected || m.lost {
		m.w.logMQ(LogEntry{Kind: "mq_req_refused", Subject: subj, Payload: payload})
		t := m.tasks
		if t != nil && m.connected {
			t <- func() { cb("", nil, errMQClosed) }
		}
		m.mu.Unlock()
		return
	}
	if len(subj) > m.MaxReqSubject {
		m.w.logMQ(LogEntry{Kind: "mq_req_toolong", Subject: subj, Payload: payload})
		m.tasks <- func() { cb("", nil, mq.ErrSubjectTooLong) }
		m.mu.Unlock()
		return
	}
	m.seq++
	pr := &PendingReq{Seq: m.seq, Subject: subj, Payload: append([]byte(nil), payload...), cb: cb}
	var p struct {
		CID    string          `json:"cid"`
		Query  string          `json:"query"`
		Token  json.RawMessage `json:"token"`
		IsHTTP bool            `json:"isHttp"`
	}
	if json.Unmarshal(payload, &p) == nil {
		pr.CID = p.CID
		pr.Query = p.Query
		pr.Token = p.Token
		pr.HasTok = p.Token != nil
		pr.IsHTTP = p.IsHTTP
	}
	m.pending = append(m.pending, pr)
	at := m.w.logMQ(LogEntry{Kind: "mq_req", Subject: subj, Payload: pr.Payload, CID: pr.CID, Query: pr.Query, Req: pr.Seq})
	pr.At = at
	pr.Step = m.w.step
	h := m.holdCh
	m.mu.Unlock()
	if h != nil {
		atomic.AddInt32(&m.heldN, 1)
		<-h
		atomic.AddInt32(&m.heldN, -1)
	}
}

// Hold makes the following SendRequest calls block (after they have been
// registered) until Release.
func (m *MockMQ) Hold() {
	m.mu.Lock()
	if m.holdCh == nil {
		m.holdCh = make(chan struct{})
	}
	m.mu.Unlock()
}

// Release ends a Hold.
func (m *MockMQ) Release() {
	m.mu.Lock()
	if m.holdCh != nil {
		close(m.holdCh)
		m.holdCh = nil
	}
	m.mu.Unlock()
}

// Held is the number of callers currently blocked inside SendRequest.
func (m *MockMQ) Held() int { return int(atomic.LoadInt32(&m.heldN)) }

// Subscribe implements mq.Client.
func (m *MockMQ) Subscribe(ns string, cb mq.Response) (mq.Unsubscriber, error) {
	m.mu.Lock()
	defer m.mu.Unlock()
	if !m.connected || m.lost {
		m.w.logMQ(LogEntry{Kind: "mq_sub_refused", Subject: ns})
		return nil, errMQClosed
	}
	if len(ns) > m.MaxSubNS {
		m.w.logMQ(LogEntry{Kind: "mq_sub_toolong", Subject: ns})
		return nil, mq.ErrSubjectTooLong
	}
	if old, ok := m.subs[ns]; ok && old.live {
		// The real adapter would happily create a second subscription; the
		// gateway is expected never to do that. Record it.
		m.w.logMQ(LogEntry{Kind: "mq_sub_dup", Subject: ns})
	}
	s := &mqSub{m: m, ns: ns, cb: cb, live: true}
	m.subs[ns] = s
	m.w.logMQ(LogEntry{Kind: "mq_sub", Subject: ns})
	return s, nil
}

func (s *mqSub) Unsubscribe() error {
	m := s.m
	m.mu.Lock()
	defer m.mu.Unlock()
	if !s.live {
		m.w.logMQ(LogEntry{Kind: "mq_unsub_dup", Subject: s.ns})
		return nil
	}
	s.live = false
	if m.subs[s.ns] == s {
		delete(m.subs, s.ns)
	}
	m.w.logMQ(LogEntry{Kind: "mq_unsub", Subject: s.ns})
	return nil
}

// HasSub reports whether a live subscription for the namespace exists.
func (m *MockMQ) HasSub(ns string) bool {
	m.mu.Lock()
	defer m.mu.Unlock()
	s, ok := m.subs[ns]
	return ok && s.live
}

// SubNames returns the sorted live subscription namespaces.
func (m *MockMQ) SubNames() []string {
	m.mu.Lock()
	defer m.mu.Unlock()
	var r []string
	for k, s := range m.subs {
		if s.live {
			r = append(r, k)
		}
	}
	sort.Strings(r)
	return r
}

// Deliver publishes an event on a full subject ("event.x.y.change"). It is
// delivered to the subscription of the namespace (everything before the last
// dot), if any. Returns whether a subscriber existed at publish time.
func (m *MockMQ) Deliver(subject string, payload []byte) bool {
	i := strings.LastIndexByte(subject, '.')
	if i < 0 {
		return false
	}
	ns := subject[:i]
	m.mu.Lock()
	s, ok := m.subs[ns]
	if !ok || !s.live || !m.connected || m.lost {
		m.w.logMQ(LogEntry{Kind: "mq_ev_drop", Subject: subject, Payload: payload})
		m.mu.Unlock()
		return false
	}
	m.w.logMQ(LogEntry{Kind: "mq_ev", Subject: subject, Payload: payload})
	m.tasks <- func() {
		// NATS delivers messages already in flight even if Unsubscribe raced;
		// the adapter drops them after Unsubscribe returned (mqReqs lookup).
		m.mu.Lock()
		live := s.live
		m.mu.Unlock()
		if live {
			s.cb(subject, payload, nil)
		}
	}
	m.mu.Unlock()
	return true
}

// Pending returns a snapshot of pending requests in arrival order.
func (m *MockMQ) Pending() []*PendingReq {
	m.mu.Lock()
	defer m.mu.Unlock()
	return append([]*PendingReq(nil), m.pending...)
}

// PendingCount returns the number of pending requests.
func (m *MockMQ) PendingCount() int {
	m.mu.Lock()
	defer m.mu.Unlock()
	return len(m.pending)
}

// Complete completes a pending request exactly once.
func (m *MockMQ) Complete(pr *PendingReq, data []byte, err error) bool {
	m.mu.Lock()
	idx := -1
	for i, p := range m.pending {
		if p == pr {
			idx = i
			break
		}
	}
	if idx < 0 {
		m.mu.Unlock()
		return false
	}
	m.pending = append(m.pending[:idx:idx], m.pending[idx+1:]...)
	es := ""
	if err != nil {
		es = err.Error()
	}
	m.w.logMQ(LogEntry{Kind: "mq_complete", Subject: pr.Subject, Payload: data, Req: pr.Seq, CID: pr.CID, Query: pr.Query, Err: es})
	if !m.connected || m.tasks == nil {
		m.mu.Unlock()
		return true
	}
	cb := pr.cb
	m.tasks <- func() {
		if err != nil {
			cb("", nil, err)
		} else {
			cb("_INBOX.mock", data, nil)
		}
	}
	m.mu.Unlock()
	return true
}

// Lose simulates loss of the server connection: nothing is delivered any more,
// new requests fail, and the closed handler is invoked from its own goroutine.
func (m *MockMQ) Lose() {
	m.mu.Lock()
	if m.lost || !m.connected {
		m.mu.Unlock()
		return
	}
	m.lost = true
	cb := m.closedCb
	m.w.logMQ(LogEntry{Kind: "mq_lost"})
	m.mu.Unlock()
	if cb != nil {
		go cb(errors.New("lost NATS connection: mock"))
	}
}

// idle reports whether no task is queued for the listener.
func (m *MockMQ) idle() bool {
	m.mu.Lock()
	defer m.mu.Unlock()
	return m.tasks == nil || len(m.tasks) == 0
}
