//go:build verif

package sim

import (
	"fmt"
	"sort"
)

// queueFlags returns cid|rid -> queue flag for every connection subscription.
func queueFlags(w *World) map[string]int {
	if !w.started || w.Failed != "" || w.Deadlock != "" {
		return nil
	}
	out := map[string]int{}
	for _, c := range w.ConnSnapshot() {
		for _, s := range c.Subs {
			f := s.QueueFlag
			if s.Reaccess {
				f |= deferredBit
			}
			out[c.CID+"|"+s.RID] = f
		}
	}
	return out
}

// stalledSubscriptions: with nothing outstanding anywhere, no subscription of
// an open connection may still be holding events back - whatever it waits for
// (a reference to load, an access verdict) will never come.
func stalledSubscriptions(w *World) []string {
	if !w.started || w.Failed != "" || w.Deadlock != "" || w.mq.PendingCount() > 0 {
		return nil
	}
	var out []string
	for _, c := range w.ConnSnapshot() {
		for _, s := range c.Subs {
			// (the loading bit stays set for a subscription whose resource failed to
			// load; only a pending access re-check, bit 2, is a wait for an answer)
			if s.QueueFlag&2 != 0 && s.State != 0 {
				out = append(out, fmt.Sprintf("a%d:%s(queue flag %d, %d events held)", w.ActorOf(c.CID), s.RID, s.QueueFlag, s.Queued))
			}
		}
	}
	sort.Strings(out)
	return out
}

// directCounts returns cid|rid -> direct subscription count of every connection subscription.
func directCounts(w *World) map[string]int {
	if !w.started || w.Failed != "" || w.Deadlock != "" {
		return nil
	}
	out := map[string]int{}
	for _, c := range w.ConnSnapshot() {
		for _, s := range c.Subs {
			if s.State != 0 {
				out[c.CID+"|"+s.RID] = s.Direct
			}
		}
	}
	return out
}
