//go:build verif

package sim

// queueFlags returns cid|rid -> queue flag for every connection subscription.
func queueFlags(w *World) map[string]int {
	if !w.started || w.Failed != "" || w.Deadlock != "" {
		return nil
	}
	out := map[string]int{}
	for _, c := range w.ConnSnapshot() {
		for _, s := range c.Subs {
			f := s.QueueFlag
			if s.Reaccess {
				f |= deferredBit
			}
			out[c.CID+"|"+s.RID] = f
		}
	}
	return out
}
