//go:build !verif

package sim

// Without hooks the simulator part of C12 has no pre-state to compare with.
type MonC12 struct{ baseMon }

func NewMonC12() Monitor                     { m := &MonC12{}; m.init("C12"); return m }
func (m *MonC12) OnEnd(w *World) []Violation { return nil }
