package sim

import (
	"encoding/json"
	"fmt"
	"os"
	"path/filepath"
	"strings"
	"time"

	"pgregory.net/rapid"
)

// Fault enumeration (C11, C20): a base history is generated once; then, for
// every step k of it, a variant that injects the fault before op k is run in a
// fresh world and judged by the same monitors.

// ---------------------------------------------------------------------------
// C11: disconnect cleanup

type MonC11 struct {
	baseMon
	closeStep map[string]int // cid -> step of the close
	closeT    map[string]int
	released  map[string]int // cid -> time at which its connection-event subscription was released
	hadWork   bool
}

func NewMonC11() *MonC11 {
	m := &MonC11{closeStep: map[string]int{}, closeT: map[string]int{}}
	m.init("C11")
	return m
}

func (m *MonC11) OnLog(w *World, e *LogEntry) {
	switch e.Kind {
	case "cclose":
		c := w.Clients[e.Conn]
		if c.CID != "" {
			m.closeStep[c.CID] = e.Step
			m.closeT[c.CID] = e.T
			// non-trivial: the connection had unanswered service requests or client requests
			for _, p := range w.mq.Pending() {
				if p.CID == c.CID {
					m.hadWork = true
				}
			}
			if len(c.Ref.Outstanding()) > 0 {
				m.hadWork = true
			}
		}
	case "mq_unsub":
		// the disposal of a connection releases its connection-event subscription:
		// from here on the gateway has processed the close, whatever the step
		if strings.HasPrefix(e.Subject, "conn.") {
			if m.released == nil {
				m.released = map[string]int{}
			}
			m.released[e.Subject[5:]] = e.T
		}
	case "mq_req":
		if t, ok := m.released[e.CID]; ok && e.CID != "" {
			if strings.HasPrefix(e.Subject, "access.") || strings.HasPrefix(e.Subject, "call.") || strings.HasPrefix(e.Subject, "auth.") {
				m.viols = append(m.viols, Violation{Property: "C11", Class: "request_after_release", Step: e.Step, T: e.T, Conn: w.ActorOf(e.CID),
					Message: fmt.Sprintf("%s was requested (t=%d) on behalf of connection a%d after the gateway had disposed of it (its connection-event subscription was released at t=%d)", e.Subject, e.T, w.ActorOf(e.CID), t)})
			}
		}
		// (in the step of the close itself too, when the close is that step's only
		// stimulus: whatever is requested then is requested by the disposal)
		sameStep := false
		if s, ok := m.closeStep[e.CID]; ok && e.Step == s && e.T > m.closeT[e.CID] && s < len(w.Script) && w.Script[s].K == "close" && !w.Race {
			sameStep = true
		}
		if s, ok := m.closeStep[e.CID]; ok && e.CID != "" && (e.Step > s || sameStep) {
			if strings.HasPrefix(e.Subject, "access.") || strings.HasPrefix(e.Subject, "call.") || strings.HasPrefix(e.Subject, "auth.") {
				m.viols = append(m.viols, Violation{Property: "C11", Class: "request_for_closed_connection", Step: e.Step, T: e.T, Conn: w.ActorOf(e.CID),
					Message: fmt.Sprintf("%s was requested at step %d on behalf of connection a%d, which closed at step %d", e.Subject, e.Step, w.ActorOf(e.CID), s)})
			}
		}
	}
}

func (m *MonC11) OnStepEnd(w *World, step int) {
	// the connection-event subscription is released in the step in which the close is processed
	for cid, s := range m.closeStep {
		if s == step && w.mq.HasSub("conn."+cid) {
			m.viols = append(m.viols, Violation{Property: "C11", Class: "conn_subscription_kept", Step: step, T: w.now(), Conn: w.ActorOf(cid),
				Message: fmt.Sprintf("connection a%d closed at step %d but its connection-event subscription is still held at the quiescent end of the step", w.ActorOf(cid), step)})
		}
	}
}

// CheckStalled runs at the quiescent end of the history, before the end-state
// phase closes the remaining connections.
func (m *MonC11) CheckStalled(w *World) {
	if st := stalledSubscriptions(w); len(st) > 0 {
		m.violate(w, "subscription_stalled", "nothing is outstanding, yet subscriptions of open connections still hold events back (what they wait for was lost with a closed connection?): %s", trunc(strings.Join(st, ", "), 300))
	}
}

// requestsAfterHTTPResponse: a finished HTTP request is a closed connection; no
// access, call or auth request is made on its behalf after the response.
func (m *MonC11) requestsAfterHTTPResponse(w *World) {
	done := map[string]*HTTPCall{}
	w.httpMu.Lock()
	for _, h := range w.HTTP {
		if h.Done && h.CID != "" {
			done[h.CID] = h
		}
	}
	w.httpMu.Unlock()
	if len(done) == 0 {
		return
	}
	m.class("http_requests_finished")
	// an HTTP request checks access to a resource once: it holds back the events
	// (reaccess included) that arrive while it loads, and is gone when answered
	seen := map[string]int{}
	for _, e := range w.Log() {
		if e.Kind != "mq_req" || e.CID == "" {
			continue
		}
		if h := done[e.CID]; h != nil && strings.HasPrefix(e.Subject, "access.") {
			k := e.CID + "|" + e.Subject + "?" + e.Query
			seen[k]++
			if seen[k] == 2 {
				m.viols = append(m.viols, Violation{Property: "C11", Class: "access_rechecked_for_http_request", Step: e.Step, T: e.T, Conn: -1,
					Message: fmt.Sprintf("%s was requested a second time (t=%d) on behalf of HTTP request h%d (%s %s): a re-check for a request that is answered and gone", e.Subject, e.T, h.ID, h.Method, h.URL)})
				return
			}
		}
		h := done[e.CID]
		if h == nil || e.T <= h.DoneT || e.Step <= w.stepOfT(h.DoneT) {
			continue
		}
		if strings.HasPrefix(e.Subject, "access.") || strings.HasPrefix(e.Subject, "call.") || strings.HasPrefix(e.Subject, "auth.") {
			m.viols = append(m.viols, Violation{Property: "C11", Class: "request_for_finished_http_request", Step: e.Step, T: e.T, Conn: -1,
				Message: fmt.Sprintf("%s was requested at t=%d on behalf of HTTP request h%d (%s %s), which had been answered at t=%d", e.Subject, e.T, h.ID, h.Method, h.URL, h.DoneT)})
			return
		}
	}
}

func (m *MonC11) OnEnd(w *World) []Violation {
	m.requestsAfterHTTPResponse(w)
	if m.hadWork {
		m.nontriv = true
		m.class("closed_with_work_outstanding")
	}
	if len(m.closeStep) > 0 {
		m.class("closed")
	}
	return m.viols
}

// openJournal starts the shard's crash journal anew for one world: header line
// (property, profile, config), then one op per line as they are executed.
func openJournal(env *Env, prop *SimProp, p *Profile, cfg WorldConfig, w *World) func() {
	if env.OutDir == "" {
		return func() {}
	}
	jf, err := os.Create(filepath.Join(env.OutDir, fmt.Sprintf("journal-%d.jsonl", env.Shard)))
	if err != nil {
		return func() {}
	}
	hdr, _ := json.Marshal(ReplayFile{Property: prop.ID, Profile: p.Name, Config: cfg})
	jf.Write(append(hdr, '\n'))
	w.Journal = jf
	return func() { jf.Close() }
}

// FaultVariant builds the script of a variant: the fault ops are inserted before op k.
func faultVariant(base []Op, k int, fault []Op, post []Op) []Op {
	v := append([]Op(nil), base[:k]...)
	v = append(v, fault...)
	v = append(v, base[k:]...)
	for _, op := range post {
		if op.K == "fault2" {
			// the second fault of a history alternates between the two kinds
			op = Op{K: "lose"}
			if k%2 == 1 {
				op = Op{K: "stop"}
			}
		}
		v = append(v, op)
	}
	return v
}

// RunFaultCase generates a base history and enumerates the fault at every step.
func RunFaultCase(rt *rapid.T, env *Env, prop *SimProp, faults func(w *World) [][]Op, post []Op) {
	p := prop.Profiles[rapid.IntRange(0, len(prop.Profiles)-1).Draw(rt, "profile")]
	cfg := prop.Config(rt, p)
	w, err := NewWorld(cfg)
	if err != nil {
		env.Inconclusive("NewWorld: " + err.Error())
		rt.Skip("world")
	}
	w.Monitors = prop.Monitors()
	closeJ := openJournal(env, prop, p, cfg, w)
	w.Settle()
	g := NewGen(rt, w, p)
	if p.Prologue > 0 && rapid.IntRange(0, 99).Draw(rt, "prologue") < p.Prologue {
		g.RunPrologue()
	}
	n := rapid.IntRange(p.MinOps, p.MaxOps).Draw(rt, "nops")
	for i := 0; i < n && len(w.Script) < p.MaxOps*2; i++ {
		if !g.Step() || w.Failed != "" || w.Deadlock != "" {
			break
		}
	}
	base := append([]Op(nil), w.SymScript...)
	fs := faults(w)
	judge := func(w *World, script []Op) {
		res := FinishCase(prop, w, env.Known)
		w.Shutdown()
		if left := w.Leftover(); left != "" {
			env.Inconclusive("leftover goroutines after shutdown: " + left)
		}
		env.Stats.Steps += len(script)
		env.Stats.Modes[p.Name]++
		text := ScriptString(script)
		env.Record(text, res.NonTrivial, res.Classes)
		for _, k := range res.KnownTrig {
			env.Stats.Known[k]++
		}
		if res.Inconcl != "" && len(res.Violations) == 0 {
			env.Inconclusive(res.Inconcl + " :: " + text)
			return
		}
		if len(res.Violations) > 0 {
			v := res.Violations[0]
			env.Stats.Violations++
			rf := &ReplayFile{Property: prop.ID, Profile: p.Name, Config: cfg, Script: script, Message: v.Message, Class: v.Class}
			path := env.WriteFail(rf)
			rt.Fatalf("VIOLATION %s class=%s step=%d: %s\nreplay: %s\nscript: %s", prop.ID, v.Class, v.Step, v.Message, path, text)
		}
	}
	// the base itself (no fault)
	judge(w, base)
	closeJ()
	for _, fault := range fs {
		for k := 0; k <= len(base); k++ {
			script := faultVariant(base, k, fault, post)
			vw, err := NewWorld(cfg)
			if err != nil {
				env.Inconclusive("NewWorld: " + err.Error())
				return
			}
			vw.Monitors = prop.Monitors()
			cj := openJournal(env, prop, p, cfg, vw)
			vw.Settle()
			for _, op := range script {
				if op.K == "drain" {
					// answer whatever is outstanding (recorded as the individual answers)
					answerAllOK(vw)
					continue
				}
				vw.Exec(op)
			}
			judge(vw, vw.SymScript)
			cj()
		}
	}
	if prop.ID != "C11" && prop.ID != "C20" {
		return
	}
	// race variants: the connection closes at the same moment as a service answer
	// is delivered (released together from separate goroutines), so that the
	// answer's hand-over can land between the queued disposal and its execution
	for _, fault := range fs {
		for k := 0; k < len(base); k++ {
			// (answers, and the service events whose handling walks the connections
			// or the cache while the disposal does the same)
			switch base[k].K {
			case "ans", "tokreset", "sysreset", "token", "reaccess", "mut", "custom", "delete", "qevent":
			default:
				continue
			}
			if len(fault) != 1 {
				continue
			}
			if prop.ID == "C20" {
				// Stop or the loss of the messaging connection together with the answer
				// to a call or auth request: the answer's handling lands while the
				// connections are being closed
				if base[k].K != "ans" || !(strings.HasPrefix(base[k].S, "call.") || strings.HasPrefix(base[k].S, "auth.")) {
					continue
				}
				if fault[0].K != "stop" && fault[0].K != "lose" || fault[0].O != "" || fault[0].S != "" {
					continue
				}
			}
			script := append([]Op(nil), base[:k]...)
			par := []Op{fault[0], base[k]}
			if base[k].K == "tokreset" {
				// the fan-out of a token reset over the connections is short: repeat it
				// so that the disposal has something to overlap with
				for r := 0; r < 120; r++ {
					par = append(par, base[k])
				}
			}
			script = append(script, Op{K: "par", Par: par})
			script = append(script, base[k+1:]...)
			if prop.ID == "C20" {
				script = faultVariant(script, len(script), nil, post)
			}
			vw, err := NewWorld(cfg)
			if err != nil {
				env.Inconclusive("NewWorld: " + err.Error())
				return
			}
			vw.Monitors = prop.Monitors()
			cj := openJournal(env, prop, p, cfg, vw)
			vw.Settle()
			for _, op := range script {
				if op.K == "drain" {
					answerAllOK(vw)
					continue
				}
				vw.Exec(op)
			}
			cj()
			env.Stats.Classes["close_races_answer"]++
			judge(vw, vw.SymScript)
		}
	}
	// held-worker variants for the close of a connection (C11): the connection's
	// worker is parked by an auth request of its own, the connection closes, one
	// service-side op of the base history (an answer to one of its requests, a
	// token event, a token reset, a system reset, an event) is delivered, and
	// then the worker is released: the op's work for the connection is accepted
	// before the disposal runs and executed after it
	for _, fault := range fs {
		if len(fault) != 1 || fault[0].O != "" || fault[0].S != "" || len(cfg.Resources) == 0 {
			continue
		}
		// (C20: the same with Stop as the fault - every connection is disposed of,
		// the one whose worker is parked is the one the op concerns, else the first)
		isStop := prop.ID == "C20" && fault[0].K == "stop"
		if !isStop && !(prop.ID == "C11" && fault[0].K == "close") {
			continue
		}
		x := fault[0].C
		conns := 0
		for k := 0; k < len(base); k++ {
			b := base[k]
			if b.K == "connect" {
				conns++
			}
			if isStop {
				x = 0
				if b.K == "ans" && b.A != 0 {
					x = actorDec(b.A)
				} else if b.K == "token" {
					x = b.C
				}
			}
			if conns <= x || x < 0 {
				continue
			}
			ok := false
			switch b.K {
			case "ans":
				ok = b.A == 0 || actorDec(b.A) == x
			case "tokreset", "sysreset", "reaccess", "mut", "custom", "delete", "qevent":
				ok = true
			case "token":
				ok = b.C == x
			}
			if !ok {
				continue
			}
			park := Op{K: "creq", C: x, ID: uint64(810000 + k), M: "auth." + cfg.Resources[0].Name + ".login"}
			group := []Op{park, fault[0], b}
			script := append([]Op(nil), base[:k]...)
			if b.K == "tokreset" {
				// (a token reset only concerns connections with a token id it names:
				// the connection is given one of them first)
				var tr struct {
					Tids []string `json:"tids"`
				}
				if json.Unmarshal([]byte(b.P), &tr) == nil && len(tr.Tids) > 0 {
					script = append(script, Op{K: "token", C: x, P: `{"u":2}`, S: tr.Tids[len(tr.Tids)-1]})
				}
			}
			script = append(script, Op{K: "par", O: "held", Par: group})
			script = append(script, base[k+1:]...)
			if isStop {
				script = faultVariant(script, len(script), nil, post)
			}
			vw, err := NewWorld(cfg)
			if err != nil {
				env.Inconclusive("NewWorld: " + err.Error())
				return
			}
			vw.Monitors = prop.Monitors()
			cj := openJournal(env, prop, p, cfg, vw)
			vw.Settle()
			for _, op := range script {
				if op.K == "drain" {
					answerAllOK(vw)
					continue
				}
				vw.Exec(op)
			}
			cj()
			if vw.HeldWorkers > 0 {
				env.Stats.Classes["work_accepted_while_disposal_queued"]++
				env.Stats.Classes["work_accepted_while_disposal_queued:"+b.K]++
			}
			judge(vw, vw.SymScript)
		}
	}
	// held-worker variants: the connection that waits for the answer to a call or
	// auth request sends the same request again while the messaging client does
	// not return from SendRequest, so its worker is busy; the fault strikes, the
	// first request is answered (as it was, and with a resource response), and
	// only then is the worker let go: the answer is handed to a connection whose
	// disposal is queued but has not run
	for _, fault := range fs {
		if len(fault) != 1 || fault[0].O != "" || fault[0].S != "" {
			continue
		}
		if fault[0].K != "stop" && fault[0].K != "close" {
			continue
		}
		for k := 0; k < len(base); k++ {
			a := base[k]
			if a.K != "ans" || !(strings.HasPrefix(a.S, "call.") || strings.HasPrefix(a.S, "auth.")) || a.A == 0 {
				continue
			}
			actor := actorDec(a.A)
			if fault[0].K == "close" && fault[0].C != actor {
				continue
			}
			// the request that is being answered
			var again *Op
			for j := k - 1; j >= 0 && again == nil; j-- {
				if base[j].K == "creq" && base[j].C == actor && base[j].N <= 1 &&
					(strings.HasPrefix(base[j].M, "call.") || strings.HasPrefix(base[j].M, "auth.")) {
					c := base[j]
					c.ID = uint64(800000 + k)
					again = &c
				}
			}
			if again == nil {
				continue
			}
			answers := []Op{a}
			if i := strings.LastIndex(a.S, "."); i > 5 {
				r := a
				r.O, r.P = "resource", a.S[5:i]
				answers = append(answers, r)
			}
			for _, ans := range answers {
				script := append([]Op(nil), base[:k]...)
				script = append(script, Op{K: "par", O: "held", Par: []Op{*again, fault[0], ans}})
				script = append(script, base[k+1:]...)
				if prop.ID == "C20" {
					script = faultVariant(script, len(script), nil, post)
				}
				vw, err := NewWorld(cfg)
				if err != nil {
					env.Inconclusive("NewWorld: " + err.Error())
					return
				}
				vw.Monitors = prop.Monitors()
				cj := openJournal(env, prop, p, cfg, vw)
				vw.Settle()
				for _, op := range script {
					if op.K == "drain" {
						answerAllOK(vw)
						continue
					}
					vw.Exec(op)
				}
				cj()
				if vw.HeldWorkers > 0 {
					env.Stats.Classes["answer_while_disposal_queued"]++
				}
				judge(vw, vw.SymScript)
			}
		}
	}
}

func init() {
	register(&SimProp{
		ID: "C11",
		Profiles: []*Profile{
			func() *Profile {
				p := dataProfile("c11-base", map[string]int{"close": 0, "call": 5, "auth": 2, "tokreset": 7, "token": 3, "httpget": 3, "httpburst": 5, "sysreset": 6, "reaccess": 4, "custom": 2, "refburst": 4, "recheckburst": 9})
				p.MinOps, p.MaxOps, p.MaxConns, p.Prologue = 4, 16, 3, 60
				p.Patterns = []string{">", "t.>", "t.a", "t.b"}
				return p
			}(),
			func() *Profile {
				// connections that close while their access re-checks wait in, or are
				// outstanding under, a system reset's throttle
				p := dataProfile("c11-throttled-reset", map[string]int{"close": 0, "call": 1, "auth": 0, "tokreset": 0, "token": 1, "httpget": 0, "sysreset": 30, "reaccess": 2, "custom": 4,
					"mutate": 4, "silent": 0, "qmutate": 0, "qevent": 0, "subscribe": 24, "unsubscribe": 3, "get": 1, "answer": 36, "delete": 0, "new": 0})
				p.MinOps, p.MaxOps, p.MaxConns, p.Prologue = 6, 16, 3, 100
				p.Patterns = []string{">", "t.>"}
				return p
			}(),
		},
		Config: func(t *rapid.T, p *Profile) WorldConfig {
			cfg := graphConfig(t, p)
			cfg.Metrics = true
			if p.Name == "c11-throttled-reset" {
				cfg.ResetThrottle, cfg.ReferenceThrottle = rapid.IntRange(1, 2).Draw(t, "resetthrottle"), 0
			} else if rapid.IntRange(0, 2).Draw(t, "throttled") == 0 {
				cfg.ResetThrottle = rapid.IntRange(1, 2).Draw(t, "resetthrottle")
				cfg.ReferenceThrottle = rapid.IntRange(0, 2).Draw(t, "refthrottle")
			} else {
				cfg.ResetThrottle, cfg.ReferenceThrottle = 0, 0
			}
			return cfg
		},
		Monitors: func() []Monitor { return []Monitor{NewMonC11(), NewMonC09(), NewMonC07(), NewMonC01()} },
		End: func(w *World) {
			for _, m := range w.Monitors {
				if c, ok := m.(*MonC11); ok {
					c.CheckStalled(w)
				}
			}
			for _, m := range w.Monitors {
				if c, ok := m.(*MonC09); ok {
					c.EndState(w)
				}
			}
		},
		Trigger: triggerData,
	})
}

// C11Faults: close each connection (up to 3) that exists in the base history.
func C11Faults(w *World) [][]Op {
	var fs [][]Op
	for i := range w.Clients {
		if i >= 3 {
			break
		}
		fs = append(fs, []Op{{K: "close", C: i}})
	}
	return fs
}

// ---------------------------------------------------------------------------
// C20: fail-stop on messaging loss or Stop

type MonC20 struct {
	baseMon
	faultStep      int // step of the most recent fault
	faultKind      string
	startStep      int // step of the most recent Start after a fault (-1 while stopped)
	stopped        bool
	faults         int
	cycles         [][2]int // fault step, start step (-1 = never restarted)
	stopDone       bool     // Stop has returned and the service has not been started again
	pendingAtFault bool
}

func NewMonC20() *MonC20 { m := &MonC20{faultStep: -1, startStep: -1}; m.init("C20"); return m }

func (m *MonC20) OnStepEnd(w *World, step int) {
	if step >= len(w.Script) {
		return
	}
	op := w.Script[step]
	if op.K == "par" {
		// a fault released together with an answer counts as the fault
		for _, p := range op.Par {
			if p.K == "stop" || p.K == "lose" {
				op = p
				break
			}
		}
	}
	if m.faults == 0 && op.K != "stop" && op.K != "lose" && op.K != "restart" {
		// remember whether work is outstanding, for the step at which the fault strikes
		m.pendingAtFault = w.mq.PendingCount() > 0
		for _, c := range w.Clients {
			if len(c.Ref.Outstanding()) > 0 && c.Dialed && !c.EOF {
				m.pendingAtFault = true
			}
		}
	}
	// every fault of the history is held to the statement, also one that
	// strikes a service that was stopped and started before
	if (op.K == "stop" || op.K == "lose" || op.K == "restart") && !m.stopped {
		m.faultStep, m.faultKind, m.stopped, m.startStep = step, op.K, true, -1
		m.faults++
		m.cycles = append(m.cycles, [2]int{step, -1})
		if m.faults > 1 {
			m.class("fault_after_restart")
		}
		// every client socket is closed
		for _, c := range w.Clients {
			if c.Dialed && !c.EOF {
				m.viols = append(m.viols, Violation{Property: "C20", Class: "client_not_disconnected", Step: step, Conn: c.Idx, T: w.now(),
					Message: fmt.Sprintf("after %s at step %d the WebSocket of c%d is still open", op.K, step, c.Idx)})
			}
		}
		// the listeners are closed: nothing accepts connections on the ports
		if w.Port != 0 && op.K != "restart" {
			m.class("ports_probed_after_stop")
			// (the gateway's own listening sockets: the port number may by now belong
			// to another process)
			if OwnListener(w.Port) {
				m.violate(w, "port_open_after_stop", "after %s at step %d the gateway still listens on the API port %d", op.K, step, w.Port)
			}
			if w.MetricsPort != 0 && OwnListener(w.MetricsPort) {
				m.violate(w, "port_open_after_stop", "after %s at step %d the gateway still listens on the metrics port %d", op.K, step, w.MetricsPort)
			}
		}
		want := "<nil>"
		if op.K == "lose" {
			want = "lost NATS connection"
		}
		if len(w.StopSeen) < m.faults || !strings.Contains(w.StopSeen[len(w.StopSeen)-1], want) {
			m.violate(w, "stop_cause_not_reported", "after %s (fault %d of the history) the stop channel has reported %v, expected one value per fault and the last to contain %q", op.K, m.faults, w.StopSeen, want)
		}
	}
	if (op.K == "start" || op.K == "restart") && m.stopped {
		m.stopped, m.startStep = false, step
		m.cycles[len(m.cycles)-1][1] = step
		if w.Port != 0 && w.Failed == "" {
			// the restarted gateway listens again (Serve starts on a goroutine)
			up := false
			for i := 0; i < 1000 && !up; i++ {
				up = OwnListener(w.Port) && (w.MetricsPort == 0 || OwnListener(w.MetricsPort))
				if !up {
					time.Sleep(5 * time.Millisecond)
				}
			}
			m.class("ports_probed_after_start")
			switch {
			case up:
			case m.portLost(w):
				w.Failed = "a port of the stopped gateway was taken by another process before the restart"
			case PortOpen(w.Port) || (w.MetricsPort != 0 && PortOpen(w.MetricsPort)):
				// another process was handed one of the port numbers while the gateway
				// was stopped: nothing can be said about this case
				w.Failed = "a port of the stopped gateway was taken by another process before the restart"
			default:
				m.violate(w, "port_closed_after_start", "after Start at step %d the gateway does not listen on the API port %d / metrics port %d (gateway error log: %v)", step, w.Port, w.MetricsPort, w.LogErrors())
			}
		}
	}
	if m.stopped && step > m.faultStep {
		switch op.K {
		case "connect":
			c := w.Clients[len(w.Clients)-1]
			if c.Dialed {
				m.violate(w, "websocket_accepted_after_stop", "a WebSocket connection was upgraded at step %d although the gateway stopped at step %d", step, m.faultStep)
			}
			m.class("dial_after_stop")
		case "http":
			if h := w.httpByID(op.C); h != nil && !h.Rejected {
				if !h.Done || h.Code != 503 {
					m.violate(w, "http_served_after_stop", "HTTP %s %s at step %d after the gateway stopped: done=%v status %d, expected 503", op.M, op.S, step, h.Done, h.Code)
				}
				m.class("http_after_stop")
			}
		}
	}
}

func (m *MonC20) OnLog(w *World, e *LogEntry) {
	switch e.Kind {
	case "stop_done":
		m.stopDone = true
	case "mq_connect":
		m.stopDone = false
	case "frame":
		// a client that was not reading finds, after Stop has returned, a frame on
		// its socket: the connection was not closed by Stop but left to drain
		if m.stopDone && w.StalledAtStop[e.Conn] {
			m.class("stalled_client_at_fault")
			m.viols = append(m.viols, Violation{Property: "C20", Class: "frame_after_stop", Step: e.Step, T: e.T, Conn: e.Conn,
				Message: fmt.Sprintf("c%d received %s after Stop had returned: its socket was still open and being written to", e.Conn, trunc(string(e.Payload), 120))})
		}
	}
	if (e.Kind == "mq_close" || e.Kind == "mq_lost") && m.faultStep < 0 {
		// the boundary log shows the fault before OnStepEnd does
	}
	if e.Kind == "stop_probe" {
		m.class("request_while_stopping")
		if e.Code != 503 {
			m.viols = append(m.viols, Violation{Property: "C20", Class: "http_accepted_while_stopping", Step: e.Step, T: e.T, Conn: -1,
				Message: fmt.Sprintf("an HTTP request made while Stop was in progress was answered with status %d (-1 = not answered within 300ms), expected 503", e.Code)})
		}
		if e.Err != "ws_accepted=false" {
			m.viols = append(m.viols, Violation{Property: "C20", Class: "websocket_accepted_while_stopping", Step: e.Step, T: e.T, Conn: -1,
				Message: "a WebSocket handshake made while Stop was in progress was accepted"})
		}
	}
}

// portLost: the restarted gateway could not bind one of its ports although it
// had released them (checked at the fault): the number was handed to another
// process meanwhile. The gateway then stops itself, as it should; the rest of
// the case says nothing.
func (m *MonC20) portLost(w *World) bool {
	if w.Port == 0 {
		return false
	}
	for _, v := range m.viols {
		if v.Class == "port_open_after_stop" {
			return false
		}
	}
	for _, e := range w.LogErrors() {
		if strings.Contains(e, "address already in use") {
			return true
		}
	}
	return false
}

func (m *MonC20) OnEnd(w *World) []Violation {
	if m.portLost(w) {
		if w.Failed == "" {
			w.Failed = "a port of the stopped gateway was taken by another process before the restart"
		}
		return nil
	}
	if w.Failed != "" {
		// the history was cut short by the harness: nothing more is asserted
		return m.viols
	}
	for i, cy := range m.cycles {
		if cy[1] < 0 {
			continue
		}
		// the restarted service serves a subscribe (before the next fault, if any)
		until := len(w.Script)
		if i+1 < len(m.cycles) {
			until = m.cycles[i+1][0]
		}
		served := false
		for _, c := range w.Clients {
			for _, id := range c.Ref.ReqOrder {
				r := c.Ref.Reqs[id]
				if r.Action == "subscribe" && r.Resp > 0 && !r.IsError && r.SentStep > cy[1] && r.SentStep < until {
					served = true
				}
			}
		}
		m.class("restarted")
		if !served {
			m.violate(w, "restart_not_serving", "after Start at step %d a new connection's subscribe was not served", cy[1])
		}
	}
	if m.pendingAtFault {
		m.nontriv = true
		m.class("work_outstanding_at_fault")
	}
	return m.viols
}

// c20Post: after the fault, a handshake and an HTTP request (refused), Start, a
// served subscribe; then a second fault on the restarted service and the same again.
func c20Post() []Op {
	return []Op{
		{K: "connect"},
		{K: "http", C: 9001, M: "GET", S: "/api/t/a"},
		{K: "start"},
		{K: "connect"},
		{K: "creq", C: -1, ID: 1, M: "subscribe.t.e"},
		{K: "drain"},
		{K: "fault2"},
		{K: "connect"},
		{K: "http", C: 9002, M: "GET", S: "/api/t/a"},
		{K: "start"},
		{K: "connect"},
		{K: "creq", C: -1, ID: 1, M: "subscribe.t.e"},
		{K: "drain"},
	}
}

// C20Faults: Stop and loss of the messaging connection.
func C20Faults(w *World) [][]Op {
	fs := [][]Op{{{K: "stop"}}, {{K: "lose"}}, {{K: "restart"}}}
	// a new WebSocket handshake and HTTP request while Stop is in progress
	fs = append(fs, []Op{{K: "stop", O: "probe"}})
	// Stop while the messaging client still delivers an event for a cached resource
	for _, d := range w.Cfg.Resources {
		if d.QueryMap == nil && !d.PerCID && !d.Missing {
			fs = append(fs, []Op{{K: "stop", S: "event." + d.Name + ".custom", P: `{"late":true}`}})
			break
		}
	}
	return fs
}

func init() {
	register(&SimProp{
		ID: "C20",
		Profiles: []*Profile{
			func() *Profile {
				p := dataProfile("c20-base", map[string]int{"close": 1, "stallburst": 4, "call": 14, "auth": 3, "httpget": 0, "httppost": 0, "sysreset": 2, "custom": 1, "silent": 0, "qmutate": 0, "qevent": 1})
				p.MinOps, p.MaxOps, p.MaxConns, p.Prologue = 3, 12, 3, 50
				return p
			}(),
		},
		Config: func(t *rapid.T, p *Profile) WorldConfig {
			cfg := WorldConfig{Resources: defaultResources(), Protocol: true}
			if HooksEnabled && rapid.IntRange(0, 3).Draw(t, "delay") == 0 {
				cfg.UnsubDelayMs = 20 // pending evictions at the fault
			}
			// real listeners on loopback in a fifth of the cases, half of those with
			// the metrics endpoint
			if rapid.IntRange(0, 4).Draw(t, "listen") == 0 {
				cfg.Listen = true
				cfg.ListenMetrics = rapid.Bool().Draw(t, "listenmetrics")
			}
			return cfg
		},
		Monitors: func() []Monitor { return []Monitor{NewMonC20()} },
	})
}
