package sim

import (
	"encoding/json"
	"fmt"
	"os"
	"path/filepath"
	"regexp"
	"sort"
	"strings"

	"pgregory.net/rapid"
)

// SimProp describes how one property is decided with the simulator.
type SimProp struct {
	ID       string
	Profiles []*Profile
	Config   func(t *rapid.T, p *Profile) WorldConfig
	Monitors func() []Monitor
	// End runs property-specific end-of-history phases (after the epilogue,
	// before the monitors' OnEnd).
	End func(w *World)
	// Custom replaces the general generator (scenario properties).
	Custom func(t *rapid.T, w *World, p *Profile)
	// KnownTriggers maps a violation to the name of the known-finding trigger it
	// matches in this history ("" = none).
	Trigger func(w *World, v Violation) string
}

var Props = map[string]*SimProp{}

// ReplayTrace makes Replay print the boundary log.
var ReplayTrace bool

func register(p *SimProp) { Props[p.ID] = p }

func defaultResources() []ResDef {
	return []ResDef{
		{Name: "t.a", Type: "model", Model: map[string]Val{"x": Prim("1"), "r": Ref("t.b")}},
		{Name: "t.b", Type: "collection", Coll: []Val{Prim("1"), Prim("2"), Ref("t.c")}},
		{Name: "t.c", Type: "model", Model: map[string]Val{"y": Prim(`"s"`), "back": Ref("t.a")}},
		{Name: "t.d", Type: "model", Model: map[string]Val{"z": Prim("true"), "soft": Soft("t.a"), "data": Data(`{"a":1}`)}},
		{Name: "t.e", Type: "collection", Coll: []Val{}},
		{Name: "t.m", Type: "model", Missing: true},
	}
}

func stdConfig(t *rapid.T, p *Profile) WorldConfig {
	return WorldConfig{Resources: defaultResources()}
}

// CaseResult is the outcome of finishing a case.
type CaseResult struct {
	Violations []Violation
	Known      []Violation // violations matching a known finding (suppressed)
	KnownTrig  []string
	NonTrivial bool
	Classes    map[string]int
	Inconcl    string
}

// FinishCase runs the epilogue, end phases and monitors; shared by search and replay.
func FinishCase(prop *SimProp, w *World, known *KnownFindings) CaseResult {
	var res CaseResult
	res.Classes = map[string]int{}
	if !w.Race || true {
		w.Epilogue()
	}
	if prop.End != nil && w.Failed == "" && w.Deadlock == "" {
		prop.End(w)
	}
	var all []Violation
	for _, m := range w.Monitors {
		all = append(all, m.OnEnd(w)...)
		for k, n := range m.Classes() {
			res.Classes[k] += n
		}
		if m.NonTrivial() {
			res.NonTrivial = true
		}
	}
	// Attribute violations to known-finding histories. Once a known finding has
	// manifested on a connection, the client's and the gateway's view of what the
	// client holds have diverged: later violations on that connection are its
	// downstream effects and are attributed to the same finding.
	sort.SliceStable(all, func(i, j int) bool { return all[i].T < all[j].T })
	tainted := map[int]string{}
	for _, v := range all {
		trig := ""
		if prop.Trigger != nil {
			trig = prop.Trigger(w, v)
		}
		if trig == "" && v.Conn >= 0 {
			if t, ok := tainted[v.Conn]; ok {
				trig = t
				res.Classes["downstream_of_known_finding"]++
			}
		}
		if trig != "" && (known.KnownTrigger(v.Property, trig) || known.KnownTrigger(prop.ID, trig)) {
			res.Known = append(res.Known, v)
			res.KnownTrig = append(res.KnownTrig, trig)
			if v.Conn >= 0 {
				if _, ok := tainted[v.Conn]; !ok {
					tainted[v.Conn] = trig
				}
			}
			continue
		}
		res.Violations = append(res.Violations, v)
	}
	if w.Deadlock != "" {
		res.Violations = append(res.Violations, Violation{Property: prop.ID, Class: "deadlock", Message: "gateway goroutines parked at a non-idle wait, stable for 2s: " + w.Deadlock, Step: w.step})
	}
	if w.Failed != "" {
		res.Inconcl = w.Failed
	}
	sort.SliceStable(res.Violations, func(i, j int) bool { return res.Violations[i].Step < res.Violations[j].Step })
	// a stall is reported first: what the monitors saw before it is its consequence,
	// and the driver replays a stall (which waits out a timeout) without repetitions
	for i, v := range res.Violations {
		if v.Class == "deadlock" && i > 0 {
			copy(res.Violations[1:i+1], res.Violations[:i])
			res.Violations[0] = v
			break
		}
	}
	return res
}

// RunCase generates and judges one case.
func RunCase(rt *rapid.T, env *Env, prop *SimProp) {
	p := prop.Profiles[rapid.IntRange(0, len(prop.Profiles)-1).Draw(rt, "profile")]
	cfg := prop.Config(rt, p)
	w, err := NewWorld(cfg)
	if err != nil {
		env.Inconclusive("NewWorld: " + err.Error())
		rt.Skip("world")
	}
	w.Monitors = prop.Monitors()
	if env.OutDir != "" {
		// journal: header line (property, profile, config), then one op per line
		if jf, err := os.Create(filepath.Join(env.OutDir, fmt.Sprintf("journal-%d.jsonl", env.Shard))); err == nil {
			hdr, _ := json.Marshal(ReplayFile{Property: prop.ID, Profile: p.Name, Config: cfg})
			jf.Write(append(hdr, '\n'))
			w.Journal = jf
			defer jf.Close()
		}
	}
	w.Settle()
	var g *Gen
	if prop.Custom != nil {
		prop.Custom(rt, w, p)
	} else {
		g = NewGen(rt, w, p)
		if p.Prologue > 0 && rapid.IntRange(0, 99).Draw(rt, "prologue") < p.Prologue {
			g.RunPrologue()
		}
		n := rapid.IntRange(p.MinOps, p.MaxOps).Draw(rt, "nops")
		for i := 0; i < n && len(w.Script) < p.MaxOps*3; i++ {
			if !g.Step() {
				break
			}
			if w.Failed != "" || w.Deadlock != "" {
				break
			}
		}
	}
	res := FinishCase(prop, w, env.Known)
	script := append([]Op(nil), w.SymScript...)
	w.Shutdown()
	if left := w.Leftover(); left != "" {
		rf := &ReplayFile{Property: prop.ID, Profile: p.Name, Config: cfg, Script: script, Message: "goroutines left behind after shutdown: " + left, Class: "leftover"}
		rf.Text = ScriptString(script)
		if env.OutDir != "" {
			b, _ := json.MarshalIndent(rf, "", " ")
			os.WriteFile(filepath.Join(env.OutDir, fmt.Sprintf("leftover-%d-%d.json", env.Shard, env.Stats.Cases)), b, 0o644)
		}
		env.Inconclusive("leftover goroutines after shutdown: " + left + " :: " + rf.Text)
	}
	env.Stats.Steps += len(script)
	env.Stats.Modes[p.Name]++
	text := ScriptString(script)
	env.Record(text, res.NonTrivial, res.Classes)
	for _, k := range res.KnownTrig {
		env.Stats.Known[k]++
	}
	if g != nil {
		for k, n := range g.Excluded {
			env.Stats.Excluded[k] += n
		}
	}
	if res.Inconcl != "" && len(res.Violations) == 0 {
		env.Inconclusive(res.Inconcl + " :: " + text)
		return
	}
	if len(res.Violations) > 0 {
		v := res.Violations[0]
		env.Stats.Violations++
		rf := &ReplayFile{Property: prop.ID, Profile: p.Name, Config: cfg, Script: script, Message: v.Message, Class: v.Class}
		path := env.WriteFail(rf)
		rt.Fatalf("VIOLATION %s (oracle %s) class=%s step=%d: %s\nreplay: %s\nscript: %s", prop.ID, v.Property, v.Class, v.Step, v.Message, path, text)
	}
}

// Replay runs a script without rapid and returns the verdict.
func Replay(prop *SimProp, rf *ReplayFile, known *KnownFindings) (CaseResult, error) {
	w, err := NewWorld(rf.Config)
	if err != nil {
		return CaseResult{}, err
	}
	w.Monitors = prop.Monitors()
	w.Settle()
	for _, op := range rf.Script {
		w.Exec(op)
	}
	res := FinishCase(prop, w, known)
	if ReplayTrace {
		for _, e := range w.Log() {
			fmt.Printf("%4d s%-3d %-12s c%-2d %s %s %s %s\n", e.T, e.Step, e.Kind, e.Conn, e.Subject, e.Payload, e.Err, e.CID)
		}
		for _, le := range w.LogErrors() {
			fmt.Println("GATEWAY-ERROR-LOG:", le)
		}
	}
	w.Shutdown()
	return res, nil
}

func fmtViolations(vs []Violation) string {
	var sb strings.Builder
	for _, v := range vs {
		sb.WriteString(fmt.Sprintf("  %s class=%s step=%d: %s\n", v.Property, v.Class, v.Step, v.Message))
	}
	return sb.String()
}

// ---------------------------------------------------------------------------
// Profiles

func baseWeights() map[string]int {
	return map[string]int{
		"connect": 4, "subscribe": 14, "get": 6, "unsubscribe": 10, "call": 3, "auth": 1, "new": 1,
		"close": 1, "token": 1, "burst": 1, "badreq": 1, "answer": 40, "mutate": 8, "silent": 1,
		"custom": 3, "delete": 1, "reaccess": 1, "sysreset": 1, "tokreset": 0, "httpget": 1, "httppost": 0,
		"qmutate": 2, "qevent": 2,
	}
}

func weightsWith(over map[string]int) map[string]int {
	w := baseWeights()
	for k, v := range over {
		w[k] = v
	}
	return w
}

var stdVersions = []string{"1.2.3", "1.2.3", "1.2.0", "1.1.1", ""}

func init() {
	register(&SimProp{
		ID: "C07",
		Profiles: []*Profile{
			{Name: "c07-mix", MinOps: 8, MaxOps: 45, MaxConns: 2, Versions: stdVersions,
				W:         weightsWith(map[string]int{"badreq": 5, "call": 8, "auth": 3, "new": 3, "delete": 2, "reaccess": 3, "token": 2, "unsubscribe": 14}),
				AccessOut: map[string]int{"grant": 10, "calllist": 3, "deny": 3, "denied": 2, "err": 2, "timeout": 2, "noresult": 1, "noresp": 1},
				GetOut:    map[string]int{"ok": 10, "notfound": 2, "err": 1, "timeout": 2},
				CallOut:   map[string]int{"result": 6, "resource": 4, "err": 2, "timeout": 1, "null": 1, "both": 2, "empty": 1, "reserr": 1},
			},
			// requests outstanding on trees with several references still loading,
			// unsubscribed, revoked or deleted underneath them
			{Name: "c07-graphs", MinOps: 8, MaxOps: 40, MaxConns: 2, Versions: stdVersions, Graph: true,
				W:         weightsWith(map[string]int{"badreq": 0, "call": 6, "auth": 0, "new": 2, "get": 8, "delete": 3, "reaccess": 2, "token": 1, "unsubscribe": 20, "subscribe": 20, "mutate": 6, "answer": 30}),
				AccessOut: map[string]int{"grant": 14, "deny": 2, "denied": 1, "timeout": 1},
				GetOut:    map[string]int{"ok": 12, "notfound": 1, "timeout": 1},
				CallOut:   map[string]int{"result": 3, "resource": 8, "err": 1},
			},
			// requests that wait on access checks queued in a reset throttle
			{Name: "c07-throttled", MinOps: 8, MaxOps: 45, MaxConns: 2, Versions: stdVersions, Throttle: true,
				W:         weightsWith(map[string]int{"badreq": 1, "call": 12, "auth": 1, "new": 2, "delete": 1, "reaccess": 3, "token": 2, "unsubscribe": 14, "sysreset": 4, "throtburst": 10, "subscribe": 18, "trigburst": 4}),
				AccessOut: map[string]int{"grant": 12, "calllist": 2, "deny": 2, "denied": 1, "err": 1, "timeout": 1},
				GetOut:    map[string]int{"ok": 10, "notfound": 1, "timeout": 1},
				CallOut:   map[string]int{"result": 6, "resource": 4, "err": 2, "timeout": 1},
				Patterns:  []string{">", "t.>", "t.*", "t.a", "t.b"},
			},
		},
		Config: func(t *rapid.T, p *Profile) WorldConfig {
			if p.Graph {
				return graphConfig(t, p)
			}
			cfg := stdConfig(t, p)
			if p.Throttle {
				cfg.ResetThrottle = rapid.IntRange(1, 2).Draw(t, "resetthrottle")
				cfg.ReferenceThrottle = rapid.IntRange(0, 2).Draw(t, "refthrottle")
			}
			return cfg
		},
		Monitors: func() []Monitor { return []Monitor{NewMonC07()} },
		Trigger:  triggerC07,
	})
	register(&SimProp{
		ID: "C08",
		Profiles: []*Profile{
			{Name: "c08-counts", MinOps: 8, MaxOps: 50, MaxConns: 2, Versions: stdVersions,
				W:         weightsWith(map[string]int{"subscribe": 16, "get": 10, "unsubscribe": 18, "burst": 3, "call": 4, "new": 2, "mutate": 3, "delete": 2, "reaccess": 2}),
				AccessOut: map[string]int{"grant": 10, "deny": 3, "denied": 2, "err": 2, "timeout": 1},
				GetOut:    map[string]int{"ok": 10, "notfound": 3, "err": 1, "timeout": 2},
				CallOut:   map[string]int{"result": 3, "resource": 6, "err": 2, "timeout": 1},
				RIDs:      []string{"t.a", "t.b", "t.m", "t.e"},
			},
			{Name: "c08-limit", MinOps: 4, MaxOps: 14, MaxConns: 1, Versions: []string{"1.2.3"},
				W:           weightsWith(map[string]int{"subscribe": 6, "get": 4, "unsubscribe": 10, "burst": 12, "limitburst": 10, "call": 4, "new": 0, "mutate": 0, "connect": 1, "answer": 30, "httpget": 0, "sysreset": 0, "custom": 0, "qmutate": 0, "qevent": 0, "silent": 0, "badreq": 0, "token": 0, "close": 0, "delete": 1, "reaccess": 1, "auth": 0}),
				BurstMax:    140,
				CallOut:     map[string]int{"resource": 8, "result": 2, "err": 1},
				RIDs:        []string{"t.e"},
				UnsubParams: []string{`{"count":255}`, `{"count":256}`, `{"count":257}`, `{"count":128}`},
			},
		},
		Config: stdConfig,
		Monitors: func() []Monitor {
			return []Monitor{NewMonC08()}
		},
		End: func(w *World) {
			for _, m := range w.Monitors {
				if c, ok := m.(*MonC08); ok {
					c.EndProbes(w)
				}
			}
		},
		Trigger: triggerC08,
	})
}

// triggerC07 attributes a missing response to the known-finding history
// predicate "unsub-while-pending": a successful unsubscribe (or an unsubscribe
// event) for the request's resource id was delivered on the same connection
// while the request was outstanding.
func triggerC07(w *World, v Violation) string {
	if v.Class != "no_response" {
		return ""
	}
	return ""
}

func triggerC08(w *World, v Violation) string {
	for _, m := range w.Monitors {
		if c, ok := m.(*MonC08); ok {
			if t, ok := c.revoked[fmt.Sprintf("%d|%s", v.Conn, v.RID)]; ok && t <= v.T {
				return "revoke-in-flight"
			}
		}
	}
	if v.Class == "unsubscribe_event_without_direct" {
		return triggerGetFlush(w, v)
	}
	return ""
}

// triggerGetFlush recognises the history of the known finding "get-flush":
// an event for a resource reached the gateway while a get request that covers
// the resource was outstanding on the connection; the gateway flushes the
// queued events to the client right after the get response although a get
// leaves the client holding nothing. The violation must be an event frame for
// a rid that the most recent hand-over of that rid came from such a get.
func triggerGetFlush(w *World, v Violation) string {
	if v.Conn < 0 || v.Conn >= len(w.Clients) || v.RID == "" {
		return ""
	}
	c := w.Clients[v.Conn]
	var last *Handover
	for i := range c.Ref.Handovers {
		h := &c.Ref.Handovers[i]
		if h.RID == v.RID && h.T < v.T {
			last = h
		}
	}
	if last == nil || last.Req == nil || last.Req.Action != "get" {
		return ""
	}
	g := last.Req
	name, _ := splitRID(strings.Replace(v.RID, "{cid}", c.CID, -1))
	for _, e := range w.Log()[g.SentT:g.RespT] {
		if e.Kind == "mq_ev" && strings.HasPrefix(e.Subject, "event."+name+".") {
			return "get-flush"
		}
	}
	return ""
}

// ---------------------------------------------------------------------------
// Data properties: C01 (convergence), C02 (applicability), C03 (event order)

// graphConfig draws a resource graph: models and collections referencing each
// other (shared children, diamonds, cycles, self references, an error child),
// soft references and data values, plus one query resource.
func graphConfig(t *rapid.T, p *Profile) WorldConfig {
	names := []string{"t.a", "t.b", "t.c", "t.d", "t.e"}
	n := rapid.IntRange(3, len(names)).Draw(t, "nres")
	names = names[:n]
	targets := append(append([]string{}, names...), "t.m", "t.q?a=1")
	var defs []ResDef
	cur := 0 // index of the resource being defined
	val := func(label string) Val {
		k := rapid.IntRange(0, 9).Draw(t, label)
		if p.Dense && k >= 5 && k < 9 {
			k = 0
		}
		switch {
		case k < 4:
			if p.Acyclic {
				// forward references only: names after the current one, or a leaf
				fwd := append(append([]string{}, names[cur+1:]...), "t.m", "t.q?a=1")
				return Ref(fwd[rapid.IntRange(0, len(fwd)-1).Draw(t, label+"t")])
			}
			return Ref(targets[rapid.IntRange(0, len(targets)-1).Draw(t, label+"t")])
		case k < 5:
			return Soft(targets[rapid.IntRange(0, len(targets)-1).Draw(t, label+"t")])
		case k < 6:
			return Data(`{"a":[1,2]}`)
		default:
			return Prim(fmt.Sprint(rapid.IntRange(0, 3).Draw(t, label+"p")))
		}
	}
	for i, name := range names {
		cur = i
		if rapid.IntRange(0, 2).Draw(t, "iscoll") == 0 {
			k := rapid.IntRange(0, 3).Draw(t, "clen")
			if p.Dense && k < 2 {
				k = 2
			}
			var c []Val
			for i := 0; i < k; i++ {
				c = append(c, val("cv"))
			}
			defs = append(defs, ResDef{Name: name, Type: "collection", Coll: c})
		} else {
			m := map[string]Val{}
			mlen := rapid.IntRange(0, 3).Draw(t, "mlen")
			if p.Dense && mlen < 2 {
				mlen = 2
			}
			for _, key := range []string{"a", "b", "r"}[:mlen] {
				m[key] = val("mv")
			}
			defs = append(defs, ResDef{Name: name, Type: "model", Model: m})
		}
	}
	defs = append(defs, ResDef{Name: "t.m", Type: "model", Missing: true})
	qm := map[string]string{"a=1": "a=1", "b=1&a=1": "a=1&b=1", "a=1&b=1": "a=1&b=1", "c=1": "a=1&b=1"}
	if rapid.IntRange(0, 1).Draw(t, "qcoll") == 0 {
		defs = append(defs, ResDef{Name: "t.q", Type: "model", Model: map[string]Val{"x": Prim("1")}, QueryMap: qm})
	} else {
		defs = append(defs, ResDef{Name: "t.q", Type: "collection", Coll: []Val{Prim("1"), Prim("2")}, QueryMap: qm})
	}
	cfg := WorldConfig{Resources: defs, Protocol: p.Protocol, PreciseRetention: p.Acyclic}
	if p.Throttle {
		cfg.ReferenceThrottle = rapid.IntRange(0, 2).Draw(t, "refthrottle")
		cfg.ResetThrottle = rapid.IntRange(0, 2).Draw(t, "resetthrottle")
	}
	return cfg
}

var grantMostly = map[string]int{"grant": 30, "getonly": 3, "deny": 1, "denied": 1, "timeout": 1}
var getMostlyOK = map[string]int{"ok": 30, "notfound": 2, "err": 1, "timeout": 1}

func dataProfile(name string, over map[string]int) *Profile {
	return &Profile{Name: name, MinOps: 10, MaxOps: 60, MaxConns: 3, Versions: stdVersions, Protocol: true,
		W: weightsWith(mergeW(map[string]int{"badreq": 0, "burst": 0, "auth": 0, "call": 2, "new": 1, "mutate": 18, "custom": 6, "silent": 3,
			"sysreset": 3, "qmutate": 4, "qevent": 4, "delete": 1, "reaccess": 2, "token": 1, "httpget": 1, "subscribe": 16, "get": 4, "unsubscribe": 8, "close": 1}, over)),
		AccessOut: grantMostly, GetOut: getMostlyOK,
		CallOut:  map[string]int{"resource": 8, "result": 1, "err": 1},
		QueryOut: map[string]int{"events": 10, "full": 4, "err": 1, "notfound": 1, "timeout": 1},
		Throttle: true,
		Prologue: 60,
	}
}

func mergeW(a, b map[string]int) map[string]int {
	r := map[string]int{}
	for k, v := range a {
		r[k] = v
	}
	for k, v := range b {
		r[k] = v
	}
	return r
}

func init() {
	register(&SimProp{
		ID: "C01",
		Profiles: []*Profile{dataProfile("c01-general", nil), dataProfile("c01-events", map[string]int{"mutate": 30, "answer": 30, "sysreset": 5, "silent": 6, "resetfail": 4, "aliasburst": 6}),
			dataProfile("c01-refstates", map[string]int{"refburst": 12, "mutate": 14, "answer": 30, "subscribe": 20})},
		Config:   graphConfig,
		Monitors: func() []Monitor { return []Monitor{NewMonC01()} },
		Trigger:  triggerData,
	})
	register(&SimProp{
		ID: "C02",
		Profiles: []*Profile{dataProfile("c02-graphs", map[string]int{"unsubscribe": 14, "mutate": 22, "custom": 2, "get": 6, "refburst": 5}), dataProfile("c02-general", nil),
			func() *Profile {
				// many paths to the same child: the reference collector's counting
				p := dataProfile("c02-dense", map[string]int{"gcburst": 10, "getoverlap": 5, "subscribe": 22, "unsubscribe": 14, "get": 4, "mutate": 10, "refburst": 4, "custom": 1, "answer": 26, "silent": 0, "sysreset": 1, "qmutate": 0, "qevent": 0, "httpget": 0, "close": 0})
				p.Dense, p.MaxConns = true, 2
				return p
			}(),
			c02Acyclic(), c02Acyclic()},
		Config:   graphConfig,
		Monitors: func() []Monitor { return []Monitor{NewMonC02()} },
		Trigger:  triggerData,
	})
	register(&SimProp{
		ID: "C03",
		Profiles: []*Profile{dataProfile("c03-customs", map[string]int{"qburst": 5, "trigburst": 6, "refburst": 4, "custom": 45, "mutate": 14, "reaccess": 4, "qevent": 2, "sysreset": 4}),
			dataProfile("c03-refstates", map[string]int{"refburst": 14, "getoverlap": 8, "custom": 20, "mutate": 12, "subscribe": 18, "answer": 30})},
		Config:   graphConfig,
		Monitors: func() []Monitor { return []Monitor{NewMonC03()} },
		Trigger:  triggerData,
	})
}

// triggerData attributes violations of the data properties to known-finding histories.
func triggerData(w *World, v Violation) string {
	if v.Class == "cache_changed_by_malformed_message" || v.Class == "malformed_message_leaked" {
		// partial-query-events: the events of a query answer are applied one by one
		if v.Step >= 0 && v.Step < len(w.Script) {
			op := w.Script[v.Step]
			if op.K == "ans" && strings.HasPrefix(op.S, "_EVQ.") && strings.Count(op.P, `"event":`) >= 2 {
				return "partial-query-events"
			}
		}
		return ""
	}
	if v.Class == "get_without_subscription" {
		return triggerRefetchAfterRelease(w, v)
	}
	if v.Conn < 0 || v.Conn >= len(w.Clients) {
		return ""
	}
	c := w.Clients[v.Conn]
	if t := triggerRevived(w, v); t != "" {
		return t
	}
	// reset-query-race: a second get for the same (name, query) was answered
	// while a query request for the name was pending.
	if v.Class == "diverged" || v.Class == "tail_missing" || v.Class == "order_gap_or_duplicate" {
		name, _ := splitRID(strings.Replace(v.RID, "{cid}", c.CID, -1))
		if resetQueryRace(w, name) {
			return "reset-query-race"
		}
	}
	if v.Class == "diverged" {
		name, _ := splitRID(strings.Replace(v.RID, "{cid}", c.CID, -1))
		for _, op := range w.Script {
			if op.K == "ans" && strings.HasPrefix(op.S, "_EVQ.") && w.qevSubjects[op.S] == name && strings.Count(op.P, `"event":`) >= 2 && strings.HasPrefix(op.Key, "inject:") {
				return "partial-query-events"
			}
		}
	}
	// failed-refetch-drops-events: a reset re-fetch of the resource was answered with
	// an error while state events for it reached the gateway during the re-fetch
	if v.Class == "diverged" {
		name, _ := splitRID(strings.Replace(v.RID, "{cid}", c.CID, -1))
		if failedRefetchDropsEvents(w, name) {
			return "failed-refetch-drops-events"
		}
	}
	// resend-of-held-resource: the gateway disposed and re-sent a resource that the
	// client never stopped holding; a protocol-following client keeps its own copy
	if v.Class == "diverged" || v.Class == "index_out_of_bounds" {
		// (an index event computed against the re-sent copy does not fit the older
		// copy the client kept)
		for _, h := range c.Ref.Handovers {
			if h.RID == v.RID && !h.Fresh && h.Differs && (v.Class == "diverged" || h.T < v.T) {
				return "resend-of-held-resource"
			}
		}
	}
	// ... and the events that were pending on the disposed subscription are lost
	if v.Class == "tail_missing" || v.Class == "order_gap_or_duplicate" {
		for _, h := range c.Ref.Handovers {
			if h.RID == v.RID && !h.Fresh {
				return "resend-of-held-resource"
			}
		}
	}
	// unsend: the rid was handed to the client again by the response of a
	// request that was already outstanding when the client dropped the rid.
	if v.Class == "diverged" {
		for _, h := range c.Ref.Handovers {
			if h.RID != v.RID || !h.Fresh || h.T != v.T {
				continue
			}
			for _, d := range c.Ref.DropLog {
				if d.RID == v.RID && d.T < h.T && (outstandingAcross(c, d.T) || eventWaitingAcross(w, c, h.T, d.T)) {
					return "unsend-stale-snapshot"
				}
			}
		}
	}
	// unsend through a stray event: the resource was carried to the client in the
	// resource set of an event for a resource the client had already dropped
	// (while a request was outstanding). The client does not take resources from
	// an event it cannot apply; the gateway counts them as sent and later hands
	// over nothing, or the snapshot of that moment.
	if v.Class == "diverged" || v.Class == "tail_missing" || v.Class == "order_gap_or_duplicate" {
		for _, ev := range c.Ref.Events {
			if ev.Held || ev.T >= v.T && v.Class != "diverged" {
				continue
			}
			dm := asMap(ev.Data)
			if dm == nil || !outstandingAcross(c, ev.T) {
				continue
			}
			for _, kind := range []string{"models", "collections"} {
				if set := asMap(dm[kind]); set != nil {
					if _, ok := set[v.RID]; ok {
						return "unsend-stale-snapshot"
					}
				}
			}
		}
	}
	// unsend after events: some resource of this connection was handed to the
	// client a second time (after the client had dropped it while a request was
	// outstanding) although events for it had reached the gateway since its first
	// snapshot. The re-sent snapshot is the first one, and an event that was
	// being processed (a reference still loading) is not accounted for: from here
	// on what the gateway believes it has sent is not what the client holds.
	for _, h := range c.Ref.Handovers {
		if !h.Fresh || h.T > v.T {
			continue
		}
		for _, d := range c.Ref.DropLog {
			if d.RID == h.RID && d.T < h.T && outstandingAcross(c, d.T) && stateEventBefore(w, c, h.RID, h.T) {
				return "unsend-stale-snapshot"
			}
		}
	}
	// unsend, seen as a dangling reference: the holder was handed again (after the
	// client had dropped it while a request was outstanding) with its first
	// snapshot, which names a reference that an event has removed since.
	if v.Class == "dangling_reference" && v.Other != "" {
		for _, h := range c.Ref.Handovers {
			if h.RID != v.RID || !h.Fresh || h.T > v.T {
				continue
			}
			for _, d := range c.Ref.DropLog {
				if d.RID == v.RID && d.T < h.T && outstandingAcross(c, d.T) {
					return "unsend-stale-snapshot"
				}
			}
		}
	}
	// in-flight retention: the client dropped the resource while a request for
	// a resource X it had already been sent (subscribe or get of X, or a request
	// answered with X) was in flight on the connection, and the dropped resource
	// is X or was reachable from X: X's direct count stops the collector, which
	// leaves X and everything below it in the sent state. (A resource kept only
	// by a parent that is still loading and was never sent is handled correctly
	// - issue #241 - and is not excused.)
	target := v.RID
	if v.Other != "" {
		target = v.Other
	}
	switch v.Class {
	case "subscribe_without_data", "get_without_data", "resource_response_without_data", "dangling_reference", "stray_event", "event_before_handover":
		for _, d := range c.Ref.DropLog {
			if d.RID != target || d.T > v.T || d.Cause == "get" {
				continue
			}
			// Several genuine defects overlap where the client drops resources while
			// requests are outstanding (this one, unsend-stale-snapshot, cycles kept
			// by a loading parent, revocation in flight): in general histories the
			// whole region is excused; in acyclic, event-free histories
			// (PreciseRetention) only the exact condition of this finding is.
			// In either case the gateway can only be retaining the resource for a
			// request if the resource is that request's own or can be reached from it
			// through references the gateway has ever been told about.
			if (w.Cfg.PreciseRetention && retainedByInflight(c, target, d.T)) || (!w.Cfg.PreciseRetention && outstandingAcross(c, d.T) && reachableFromOutstanding(w, c, target, d.T)) {
				return "inflight-retention"
			}
			if outstandingAcross(c, d.T) && belowDroppedCycle(c, target, d.T) {
				return "sent-cycle-kept-by-loading-parent"
			}
		}
	}
	if v.Class == "stray_event" {
		// events for a resource the client dropped while a load that references it
		// was in progress (the gateway keeps it for the loading parent)
		for _, d := range c.Ref.DropLog {
			if d.RID == v.RID && d.T < v.T && outstandingAcross(c, d.T) && reachableFromOutstanding(w, c, v.RID, d.T) {
				return "unsend-stale-snapshot"
			}
		}
	}
	return ""
}

var ridInPayload = regexp.MustCompile(`"rid":"([^"]+)"`)

// everReferenced returns, per resource name, the names of all resources that
// any get answer, query answer or event for it has ever referenced.
func everReferenced(w *World) map[string]map[string]bool {
	g := map[string]map[string]bool{}
	add := func(name string, payload []byte) {
		for _, m := range ridInPayload.FindAllSubmatch(payload, -1) {
			t, _ := splitRID(string(m[1]))
			if g[name] == nil {
				g[name] = map[string]bool{}
			}
			g[name][t] = true
		}
	}
	for _, e := range w.Log() {
		switch {
		case e.Kind == "mq_complete" && strings.HasPrefix(e.Subject, "get."):
			add(e.Subject[4:], e.Payload)
		case e.Kind == "mq_complete" && strings.HasPrefix(e.Subject, "_EVQ."):
			add(w.qevSubjects[e.Subject], e.Payload)
		case e.Kind == "mq_ev" && strings.HasPrefix(e.Subject, "event."):
			if i := strings.LastIndexByte(e.Subject, '.'); i > 6 {
				add(e.Subject[6:i], e.Payload)
			}
		}
	}
	return g
}

// reachableFromOutstanding: the target is the resource of a request that was
// outstanding across log time t on the connection, or reachable from it; a
// call/auth/new that was unanswered at t may name any resource.
func reachableFromOutstanding(w *World, c *Client, target string, t int) bool {
	tname, _ := splitRID(strings.Replace(target, "{cid}", c.CID, -1))
	g := everReferenced(w)
	for _, id := range c.Ref.ReqOrder {
		q := c.Ref.Reqs[id]
		if q.SentT >= t || (q.Resp > 0 && q.RespT <= t) || q.Action == "unsubscribe" || q.Action == "version" {
			continue
		}
		var root string
		switch {
		case q.Action == "subscribe" || q.Action == "get":
			root = q.RID
		case q.ResRID != "":
			root = q.ResRID
		default:
			return true
		}
		rname, _ := splitRID(strings.Replace(root, "{cid}", c.CID, -1))
		seen := map[string]bool{rname: true}
		stack := []string{rname}
		for len(stack) > 0 {
			n := stack[len(stack)-1]
			stack = stack[:len(stack)-1]
			if n == tname {
				return true
			}
			for m := range g[n] {
				// a reference may name the connection's own resource symbolically
				m = strings.Replace(m, "{cid}", c.CID, -1)
				if !seen[m] {
					seen[m] = true
					stack = append(stack, m)
				}
			}
		}
	}
	return false
}

// outstandingAcross reports whether some request of the connection was sent
// before log time t and not answered before t.
// eventWaitingAcross: the frame at log time ft is an event frame whose service
// event had reached the gateway before log time t (it was waiting for the
// references it adds to load): the "load on the connection that still
// references the resource" of the stale-snapshot finding is then an event, not
// a request.
func eventWaitingAcross(w *World, c *Client, ft, t int) bool {
	log := w.Log()
	if ft < 0 || ft >= len(log) || log[ft].Kind != "frame" {
		return false
	}
	var f struct {
		Event string `json:"event"`
	}
	if json.Unmarshal(log[ft].Payload, &f) != nil || f.Event == "" {
		return false
	}
	i := strings.LastIndexByte(f.Event, '.')
	if i < 0 {
		return false
	}
	name, _ := splitRID(strings.Replace(f.Event[:i], "{cid}", c.CID, -1))
	subj := "event." + name + "." + f.Event[i+1:]
	at := -1
	for _, e := range log[:ft] {
		if e.Kind == "mq_ev" && e.Subject == subj {
			at = e.T
		}
	}
	return at >= 0 && at < t
}

func outstandingAcross(c *Client, t int) bool {
	for _, id := range c.Ref.ReqOrder {
		q := c.Ref.Reqs[id]
		if q.SentT < t && (q.Resp == 0 || q.RespT > t) && q.Action != "unsubscribe" && q.Action != "version" {
			return true
		}
	}
	return false
}

// retainedByInflight: see the in-flight retention trigger. X must itself have
// been dropped by the client (at t or before, while its request was in flight);
// reachability follows the references the client's copies had when dropped.
func retainedByInflight(c *Client, target string, t int) bool {
	last := map[string]DropRec{}
	for _, d := range c.Ref.DropLog {
		if d.T <= t {
			last[d.RID] = d
		}
	}
	for x, dx := range last {
		if !outstandingFor(c, x, dx.T) {
			continue
		}
		seen := map[string]bool{x: true}
		stack := []string{x}
		for len(stack) > 0 {
			r := stack[len(stack)-1]
			stack = stack[:len(stack)-1]
			if r == target {
				return true
			}
			for _, ref := range last[r].Refs {
				if !seen[ref] {
					seen[ref] = true
					stack = append(stack, ref)
				}
			}
		}
	}
	return false
}

// belowDroppedCycle: among the resources the client dropped at log time t, the
// target lies on a reference cycle or below one. The collector unsends a kept
// resource only when no sent parent is left; the members of a cycle keep each
// other "sent" although only a parent that is still loading holds the cycle.
func belowDroppedCycle(c *Client, target string, t int) bool {
	refs := map[string][]string{}
	for _, d := range c.Ref.DropLog {
		if d.T == t {
			refs[d.RID] = d.Refs
		}
	}
	reach := func(from string) map[string]bool {
		seen := map[string]bool{}
		stack := append([]string{}, refs[from]...)
		for len(stack) > 0 {
			r := stack[len(stack)-1]
			stack = stack[:len(stack)-1]
			if seen[r] {
				continue
			}
			if _, dropped := refs[r]; !dropped {
				continue
			}
			seen[r] = true
			stack = append(stack, refs[r]...)
		}
		return seen
	}
	for n := range refs {
		r := reach(n)
		if r[n] && (n == target || r[target]) {
			return true
		}
	}
	return false
}

// stateEventBefore reports whether a change/add/remove event for rid's resource
// reached the gateway before log time t.
func stateEventBefore(w *World, c *Client, rid string, t int) bool {
	name, _ := w.expandRID(c, rid)
	for _, e := range w.Log() {
		if e.T >= t {
			break
		}
		if e.Kind == "mq_ev" && (e.Subject == "event."+name+".change" || e.Subject == "event."+name+".add" || e.Subject == "event."+name+".remove") {
			return true
		}
	}
	return false
}

// referenceRemovedSince: the service no longer lists ref among holder's
// references (an event removed it), so a snapshot naming it is a stale one.
func referenceRemovedSince(w *World, c *Client, holder, ref string) bool {
	name, q := w.expandRID(c, holder)
	d := w.Svc.defFor(name, w.CIDs())
	if d == nil {
		return false
	}
	v := w.Svc.variant(d, name, q)
	for _, x := range v.AModel {
		if (x.K == 'r') && x.R == ref {
			return false
		}
	}
	for _, x := range v.AColl {
		if (x.K == 'r') && x.R == ref {
			return false
		}
	}
	return true
}

// outstandingFor reports whether a request for rid itself - a subscribe or get
// of it, or a request whose resource response names it - was sent before log
// time t and not answered before t.
func outstandingFor(c *Client, rid string, t int) bool {
	for _, id := range c.Ref.ReqOrder {
		q := c.Ref.Reqs[id]
		if q.SentT >= t || (q.Resp > 0 && q.RespT <= t) {
			continue
		}
		if ((q.Action == "subscribe" || q.Action == "get") && q.RID == rid) || q.ResRID == rid {
			return true
		}
	}
	return false
}

func resetQueryRace(w *World, name string) bool {
	type key struct{ q string }
	gets := map[string]int{}
	qpend := 0
	race := false
	evq := map[int]bool{}
	for _, e := range w.Log() {
		switch e.Kind {
		case "mq_req":
			if e.Subject == "get."+name {
				gets[e.Query]++
			}
			if strings.HasPrefix(e.Subject, "_EVQ.") && w.qevSubjects[e.Subject] == name {
				qpend++
				evq[e.Req] = true
			}
		case "mq_complete":
			if evq[e.Req] {
				qpend--
			}
			if e.Subject == "get."+name && qpend > 0 && gets[e.Query] >= 2 {
				race = true
			}
		}
	}
	return race
}

// ---------------------------------------------------------------------------
// Access properties: C04 (read gating), C05 (call gating, token currency), C06 (revocation)

func accessConfig(t *rapid.T, p *Profile) WorldConfig {
	cfg := WorldConfig{Resources: defaultResources(), Protocol: p.Protocol}
	cfg.Resources = append(cfg.Resources, ResDef{Name: "t.q", Type: "model", Model: map[string]Val{"x": Prim("1")}, QueryMap: map[string]string{"a=1": "a=1", "b=1&a=1": "a=1&b=1", "a=1&b=1": "a=1&b=1"}})
	if p.Throttle {
		cfg.ResetThrottle = rapid.IntRange(0, 2).Draw(t, "resetthrottle")
	}
	if rapid.IntRange(0, 3).Draw(t, "mapping") == 0 {
		cfg.PUTMethod = "set"
		cfg.DELETEMethod = "delete"
	}
	if rapid.IntRange(0, 4).Draw(t, "headerauth") == 0 {
		// every HTTP request first makes an auth call, which may set a token on
		// the request's own connection (and renew it while the request is served)
		cfg.HeaderAuth = "auth.t.login"
	}
	return cfg
}

func accessProfile(name string, over map[string]int, acc map[string]int) *Profile {
	return &Profile{Name: name, MinOps: 10, MaxOps: 55, MaxConns: 3, Versions: stdVersions, Protocol: true, Throttle: true,
		W: weightsWith(mergeW(map[string]int{"badreq": 0, "burst": 0, "auth": 2, "call": 6, "new": 2, "mutate": 5, "custom": 5, "silent": 0,
			"sysreset": 4, "qmutate": 0, "qevent": 1, "delete": 1, "reaccess": 6, "token": 6, "httpget": 3, "httppost": 2, "subscribe": 14, "get": 6, "unsubscribe": 5, "close": 1, "tokreset": 1}, over)),
		AccessOut: acc,
		GetOut:    map[string]int{"ok": 30, "notfound": 2, "err": 1, "timeout": 1},
		CallOut:   map[string]int{"resource": 5, "result": 5, "err": 1, "timeout": 1, "null": 1},
		Patterns:  []string{">", "t.>", "t.*", "*.a", "t.a", "t.b", "t.q", "x.>", "t..a", "*"},
		Prologue:  75,
	}
}

func init() {
	register(&SimProp{
		ID: "C04",
		Profiles: []*Profile{accessProfile("c04-read", map[string]int{"get": 10, "httpget": 6, "new": 3, "deleteburst": 6},
			map[string]int{"grant": 10, "getonly": 4, "deny": 6, "denied": 3, "err": 3, "timeout": 2, "noresult": 2, "noresp": 1, "callonly": 2})},
		Config:   accessConfig,
		Monitors: func() []Monitor { return []Monitor{NewMonC04()} },
		Trigger:  triggerRevived,
	})
	register(&SimProp{
		ID: "C05",
		Profiles: []*Profile{func() *Profile {
			p := accessProfile("c05-call", map[string]int{"trigburst": 8, "deleteburst": 5, "httptoken": 6, "call": 26, "new": 5, "httppost": 7, "auth": 4, "subscribe": 12, "mutate": 8},
				map[string]int{"grant": 6, "calllist": 12, "callonly": 3, "deny": 2, "denied": 2, "err": 1, "timeout": 1})
			// a comma is a valid character of a method name: such a method is an
			// entry of no list, also not of the list it spells
			p.Methods = []string{"set", "get", "se", "sett", "new", "a", "set,get", "get,set", "a,set,b", "set,"}
			return p
		}()},
		Config:   accessConfig,
		Monitors: func() []Monitor { return []Monitor{NewMonC05()} },
		Trigger:  triggerRevived,
	})
	register(&SimProp{
		ID: "C06",
		Profiles: []*Profile{accessProfile("c06-revoke", map[string]int{"trigburst": 14, "custom": 14, "mutate": 8, "token": 9, "reaccess": 9, "sysreset": 6, "subscribe": 16, "call": 1, "new": 1, "auth": 0, "httpget": 0, "httppost": 0},
			map[string]int{"grant": 10, "getonly": 3, "deny": 5, "denied": 3, "err": 2, "timeout": 2})},
		Config:   accessConfig,
		Monitors: func() []Monitor { return []Monitor{NewMonC06()} },
		End: func(w *World) {
			for _, m := range w.Monitors {
				if c, ok := m.(*MonC06); ok {
					c.CheckStalled(w)
				}
			}
		},
		Trigger: triggerRevived,
	})
}

// ---------------------------------------------------------------------------
// C09: cache entry lifecycle

var longName = "t." + strings.Repeat("x", 4090)

func cacheConfig(t *rapid.T, p *Profile) WorldConfig {
	cfg := WorldConfig{Resources: defaultResources(), Protocol: p.Protocol, Metrics: true}
	cfg.Resources = append(cfg.Resources,
		ResDef{Name: "t.q", Type: "model", Model: map[string]Val{"x": Prim("1")}, QueryMap: map[string]string{"a=1": "a=1", "b=1&a=1": "a=1&b=1", "a=1&b=1": "a=1&b=1"}},
		ResDef{Name: longName, Type: "model", Model: map[string]Val{"x": Prim("1")}})
	if HooksEnabled && rapid.IntRange(0, 3).Draw(t, "delay") == 0 {
		cfg.UnsubDelayMs = 20
	}
	return cfg
}

func init() {
	rids := []string{"t.a", "t.b", "t.c", "t.d", "t.e", "t.m", "t.q?a=1", "t.q?b=1&a=1", "t.q?a=1&b=1", longName}
	register(&SimProp{
		ID: "C09",
		Profiles: []*Profile{
			{Name: "c09-lifecycle", MinOps: 8, MaxOps: 50, MaxConns: 4, Versions: []string{"1.2.3", ""}, Protocol: true, Prologue: 40,
				W: weightsWith(map[string]int{"badreq": 0, "burst": 0, "auth": 1, "call": 4, "new": 1, "mutate": 4, "custom": 1, "silent": 0, "sysreset": 2, "qmutate": 0, "qevent": 2, "aliasburst": 5,
					"delete": 5, "reaccess": 1, "token": 1, "httpget": 3, "httppost": 1, "subscribe": 16, "get": 6, "unsubscribe": 14, "close": 4, "connect": 5, "sleep": 3}),
				AccessOut: map[string]int{"grant": 12, "deny": 2, "denied": 1, "timeout": 1},
				GetOut:    map[string]int{"ok": 14, "notfound": 3, "err": 1, "timeout": 2},
				CallOut:   map[string]int{"resource": 3, "result": 5, "err": 1, "timeout": 1},
				RIDs:      rids,
			},
		},
		Config:   cacheConfig,
		Monitors: func() []Monitor { return []Monitor{NewMonC09()} },
		End: func(w *World) {
			for _, m := range w.Monitors {
				if c, ok := m.(*MonC09); ok {
					c.EndState(w)
				}
			}
		},
		Trigger: triggerData,
	})
}

// triggerRevived recognises the history of the known finding
// "deleted-resource-revived": the client received a delete event for the
// resource while it kept holding it indirectly, and subscribed to it again
// afterwards; the gateway answers from the dead subscription, which receives
// no further events, re-fetches or access re-checks.
func triggerRevived(w *World, v Violation) string {
	if v.Conn < 0 || v.Conn >= len(w.Clients) || v.RID == "" {
		return ""
	}
	c := w.Clients[v.Conn]
	if revokedInFlight(c, v.RID, v.T) {
		return "revoke-in-flight"
	}
	// (a divergence found at quiescence carries the time of the copy's handover)
	bound := v.T
	if v.Class == "diverged" {
		bound = -1
	}
	if heldThroughRevokedInFlight(w, c, v.RID, bound) {
		return "revoke-in-flight"
	}
	delT := -1
	name, _ := w.expandRID(c, v.RID)
	for _, e := range w.Log() {
		if e.Kind == "mq_ev" && e.Subject == "event."+name+".delete" && e.T < v.T {
			delT = e.T
			break
		}
		// a delete derived from a system.notFound answer to a re-fetch or query request
		if e.Kind == "mq_complete" && e.T < v.T && (e.Subject == "get."+name || (strings.HasPrefix(e.Subject, "_EVQ.") && w.qevSubjects[e.Subject] == name)) &&
			(strings.Contains(string(e.Payload), `"system.notFound"`) || strings.Contains(e.Err, "Not found")) {
			delT = e.T
			break
		}
	}
	if delT < 0 {
		return ""
	}
	// For the access properties the finding is what follows a revival: the revived
	// subscription caches a verdict again and no trigger reaches it. The revival
	// itself rests on a fresh access request (the delete cleared the verdict), so
	// the request that revives is not excused, only those after it.
	strict := v.Class == "data_on_invalidated_grant" || v.Class == "call_on_invalidated_grant"
	if strict {
		// ... but while the delete still waits in the connection's own queue (the
		// subscription is loading or re-checking: the client has not seen the
		// delete event when it makes the request) the verdict has not been cleared
		// yet, although the cache has already cut the subscription off: the same
		// finding, one step earlier
		for _, id := range c.Ref.ReqOrder {
			q := c.Ref.Reqs[id]
			if !(q.RID == v.RID || q.ResRID == v.RID) || q.SentT < delT {
				continue
			}
			// the request the violation is about: a data response at v.T, or a call
			// that was decided (forwarded) at v.T
			if v.Class == "data_on_invalidated_grant" && (q.Resp == 0 || q.RespT != v.T) {
				continue
			}
			if v.Class == "call_on_invalidated_grant" && (q.SentT > v.T || (q.Resp > 0 && q.RespT < v.T) || (q.Action != "call" && q.Action != "auth" && q.Action != "new")) {
				continue
			}
			seen := false
			for _, ev := range c.Ref.Events {
				if ev.RID == v.RID && ev.Event == "delete" && ev.T > delT && ev.T < q.SentT {
					seen = true
				}
			}
			if !seen {
				return "deleted-resource-revived"
			}
		}
	}
	for _, id := range c.Ref.ReqOrder {
		q := c.Ref.Reqs[id]
		if q.SentT > delT && !q.IsError && q.Resp > 0 && (q.RID == v.RID || q.ResRID == v.RID) && (q.Action == "subscribe" || q.Action == "get" || q.ResRID != "") {
			if strict && q.RespT >= v.T {
				continue
			}
			return "deleted-resource-revived"
		}
	}
	return ""
}

// ---------------------------------------------------------------------------
// C12 (simulator part): system reset

func init() {
	register(&SimProp{
		ID: "C12",
		Profiles: []*Profile{
			{Name: "c12-reset", MinOps: 8, MaxOps: 45, MaxConns: 3, Versions: []string{"1.2.3", "1.1.1"}, Protocol: true, Prologue: 90,
				W: weightsWith(map[string]int{"badreq": 0, "burst": 0, "auth": 0, "call": 0, "new": 0, "mutate": 4, "custom": 1, "silent": 14, "sysreset": 22, "qmutate": 8, "qevent": 3,
					"delete": 1, "reaccess": 1, "token": 0, "httpget": 1, "httppost": 0, "subscribe": 10, "get": 2, "unsubscribe": 4, "close": 1, "connect": 2}),
				AccessOut: map[string]int{"grant": 14, "deny": 2, "timeout": 1},
				GetOut:    map[string]int{"ok": 16, "notfound": 3, "err": 2, "timeout": 1},
				Patterns:  []string{">", "t.>", "t.*", "*.a", "*.*", "t.a", "t.b", "t.q", "t.c", "x.>", "t..a", "*", "t.a.>", "t.*.>", "", "t.?", "t.a*", " ", "t.>.a", "*.b"},
			},
		},
		Config: func(t *rapid.T, p *Profile) WorldConfig {
			cfg := graphConfig(t, p)
			cfg.ResetThrottle = 0
			cfg.ReferenceThrottle = 0
			return cfg
		},
		Monitors: func() []Monitor { return []Monitor{NewMonC12(), NewMonC01()} },
		Trigger:  triggerData,
	})
}

// ---------------------------------------------------------------------------
// C14: subject hygiene

func init() {
	register(&SimProp{
		ID: "C14",
		Profiles: []*Profile{
			{Name: "c14-hostile", MinOps: 8, MaxOps: 45, MaxConns: 2, Versions: []string{"1.2.3", ""}, Prologue: 20,
				W: weightsWith(map[string]int{"hostilereq": 40, "hostilehttp": 30, "badanswer": 8, "badevent": 8, "badreq": 6, "burst": 0, "auth": 2, "call": 4, "new": 2, "mutate": 2, "custom": 0, "silent": 0, "sysreset": 1, "qmutate": 0, "qevent": 1,
					"delete": 0, "reaccess": 0, "token": 1, "tokreset": 2, "httpget": 3, "httppost": 3, "subscribe": 8, "get": 3, "unsubscribe": 2, "close": 1, "connect": 3, "answer": 20}),
				AccessOut: map[string]int{"grant": 14, "deny": 2},
				GetOut:    map[string]int{"ok": 16, "notfound": 2},
				CallOut:   map[string]int{"resource": 4, "result": 5, "err": 1},
				RIDs:      []string{"t.a", "t.b", "t.c", "t.{cid}", "t.q?a=1", "t.q?x.y=*"},
			},
		},
		Config: func(t *rapid.T, p *Profile) WorldConfig {
			cfg := stdConfig(t, p)
			cfg.Resources = append(cfg.Resources, ResDef{Name: "t.{cid}", Type: "model", Model: map[string]Val{"x": Prim("1")}, PerCID: true},
				ResDef{Name: "t.q", Type: "model", Model: map[string]Val{"x": Prim("1")}, QueryMap: map[string]string{"a=1": "a=1", "x.y=*": "x.y=*"}})
			cfg.APIPath = rapid.SampledFrom([]string{"/api/", "/", "/v1/res/"}).Draw(t, "apipath")
			if rapid.Bool().Draw(t, "mapping") {
				cfg.PUTMethod = "set"
				cfg.DELETEMethod = "del"
			}
			return cfg
		},
		Monitors: func() []Monitor { return []Monitor{NewMonC14()} },
	})
}

// ---------------------------------------------------------------------------
// C15: crash freedom and containment

func init() {
	register(&SimProp{
		ID: "C15",
		Profiles: []*Profile{
			func() *Profile {
				p := dataProfile("c15-inject", map[string]int{"aliasburst": 4, "inject": 40, "badanswer": 4, "hostilereq": 4, "sysreset": 5, "qevent": 8, "qmutate": 6, "silent": 5, "mutate": 10, "custom": 2})
				p.Prologue = 80
				p.Protocol = true
				return p
			}(),
		},
		Config:   graphConfig,
		Monitors: func() []Monitor { return []Monitor{NewMonC15(), NewMonC01(), NewMonC07()} },
		Trigger:  triggerData,
	})
}

// ---------------------------------------------------------------------------
// C13: query resources

func queryConfig(t *rapid.T, p *Profile) WorldConfig {
	raws := []string{"a=1", "a=1&b=1", "b=1&a=1", "c=1", "a=1&c=1", ""}
	mk := func(label string) map[string]string {
		qm := map[string]string{}
		for _, r := range raws {
			switch rapid.IntRange(0, 3).Draw(t, label) {
			case 0:
				qm[r] = r // raw = normalised
			case 1:
				qm[r] = "a=1&b=1"
			case 2:
				qm[r] = "n"
			default:
				if r != "" {
					qm[r] = r
				}
			}
		}
		if _, ok := qm[""]; ok && rapid.Bool().Draw(t, label+"base") {
			delete(qm, "")
		}
		// a service's normalisation is idempotent: a normalised query maps to itself
		var vals []string
		for _, v := range qm {
			vals = append(vals, v)
		}
		for _, v := range vals {
			qm[v] = v
		}
		for k, v := range qm {
			qm[k] = qm[v]
		}
		return qm
	}
	return WorldConfig{Protocol: true, Resources: []ResDef{
		{Name: "t.q", Type: "model", Model: map[string]Val{"x": Prim("1"), "r": Ref("t.a")}, QueryMap: mk("qm1")},
		{Name: "t.p", Type: "collection", Coll: []Val{Prim("1"), Prim("2"), Prim("1")}, QueryMap: mk("qm2")},
		{Name: "t.a", Type: "model", Model: map[string]Val{"x": Prim("1"), "q": Ref("t.q?a=1")}},
	}}
}

func init() {
	rids := []string{"t.q?a=1", "t.q?a=1&b=1", "t.q?b=1&a=1", "t.q?c=1", "t.q?a=1&c=1", "t.q", "t.p?a=1", "t.p?a=1&b=1", "t.p?b=1&a=1", "t.p?c=1", "t.p", "t.a"}
	register(&SimProp{
		ID: "C13",
		Profiles: []*Profile{
			{Name: "c13-query", MinOps: 10, MaxOps: 60, MaxConns: 3, Versions: []string{"1.2.3", "1.2.3", "1.1.1"}, Protocol: true, Prologue: 50, RIDs: rids,
				W: weightsWith(map[string]int{"badreq": 0, "burst": 0, "auth": 0, "call": 0, "new": 0, "mutate": 2, "custom": 1, "silent": 2, "sysreset": 4, "qmutate": 24, "qevent": 18, "aliasburst": 5, "qburst": 5,
					"delete": 0, "reaccess": 1, "token": 0, "httpget": 2, "httppost": 0, "subscribe": 22, "get": 4, "unsubscribe": 6, "close": 1, "connect": 3}),
				AccessOut: map[string]int{"grant": 20, "deny": 1},
				GetOut:    map[string]int{"ok": 16, "notfound": 1, "err": 1, "timeout": 1},
				QueryOut:  map[string]int{"events": 10, "full": 5, "err": 2, "notfound": 2, "timeout": 2},
				Patterns:  []string{">", "t.q", "t.p", "t.*", "t.a"},
			},
		},
		Config:   queryConfig,
		Monitors: func() []Monitor { return []Monitor{NewMonC13(), NewMonC01(), NewMonC07()} },
		Trigger:  triggerData,
	})
}

// ---------------------------------------------------------------------------
// C19: throttles

func init() {
	register(&SimProp{
		ID:       "C19",
		Profiles: []*Profile{{Name: "c19-throttle", MaxConns: 32}},
		Config:   c19Config,
		Custom:   c19Scenario,
		Monitors: func() []Monitor { return []Monitor{NewMonC19(), NewMonC07(), NewMonC06()} },
		Trigger:  triggerC19,
	})
}

// triggerC19 recognises the history of the known finding "deferred-reaccess-
// unthrottled": a system.reset with access patterns reached the gateway while
// access re-checks of an earlier reset were still outstanding; the deferred
// re-checks are later issued outside any throttle.
func triggerC19(w *World, v Violation) string {
	if v.Class != "throttle_bound_exceeded" {
		return ""
	}
	pending := 0
	resets := 0
	for _, e := range w.Log() {
		if e.T >= v.T {
			break
		}
		switch e.Kind {
		case "mq_req":
			if resets > 0 {
				pending++
			}
		case "mq_complete":
			if resets > 0 && pending > 0 {
				pending--
			}
		case "mq_ev":
			if e.Subject == "system.reset" && strings.Contains(string(e.Payload), `"access"`) {
				// the re-checks of the earlier reset are outstanding, or still waiting in its throttle
				if resets > 0 && pending > 0 {
					return "deferred-reaccess-unthrottled"
				}
				resets++
			}
		}
	}
	return ""
}

func failedRefetchDropsEvents(w *World, name string) bool {
	// The gateway drops state events for a resource from the moment a matching
	// system.reset is handled (the re-fetch may still be waiting in the reset
	// throttle) until the re-fetch answer is processed. The re-fetches of a reset
	// are the gets requested after it (a get already outstanding is not one).
	armed := false         // a matching reset was delivered, its re-fetch not yet requested
	open := map[int]bool{} // outstanding re-fetch requests
	evs := 0               // state events delivered while armed or a re-fetch was outstanding
	for _, e := range w.Log() {
		switch e.Kind {
		case "mq_ev":
			if e.Subject == "system.reset" {
				var p struct {
					Resources []string `json:"resources"`
				}
				if json.Unmarshal(e.Payload, &p) == nil {
					for _, pat := range p.Resources {
						if RefPatternMatch(pat, name) {
							if !armed && len(open) == 0 {
								evs = 0
							}
							armed = true
						}
					}
				}
			}
			if (armed || len(open) > 0) && strings.HasPrefix(e.Subject, "event."+name+".") {
				ev := e.Subject[len("event."+name+"."):]
				if ev == "change" || ev == "add" || ev == "remove" || ev == "delete" {
					evs++
				}
			}
		case "mq_req":
			if e.Subject == "get."+name && armed {
				open[e.Req] = true
			}
		case "mq_complete":
			if open[e.Req] {
				delete(open, e.Req)
				failed := e.Err != "" || strings.Contains(string(e.Payload), `"error"`) || !strings.Contains(string(e.Payload), `"result"`)
				if e.Step >= 0 && e.Step < len(w.Script) && w.Script[e.Step].K == "ans" && w.Script[e.Step].O == "raw" {
					failed = true // a hand-made answer: the gateway may reject it
				}
				if failed && evs > 0 {
					return true
				}
				if len(open) == 0 {
					armed = false
				}
			}
		}
	}
	return false
}

// revokedInFlight: an unsubscribe event for the rid was sent to the connection
// before t while subscribe/get (or call/auth/new) requests for it were in flight.
// heldThroughRevokedInFlight: the same history seen from a resource below the
// revoked one. A subscribe (or resource request) for some rid was in flight
// when the connection's direct subscriptions to that rid were dropped, and it
// was answered successfully afterwards: the client counts a direct
// subscription the gateway does not have, and keeps everything that rid
// references while the gateway may have released it.
func heldThroughRevokedInFlight(w *World, c *Client, rid string, t int) bool {
	tname, _ := splitRID(strings.Replace(rid, "{cid}", c.CID, -1))
	var g map[string]map[string]bool
	for _, ev := range c.Ref.Events {
		if ev.Event != "unsubscribe" || (t >= 0 && ev.T > t) {
			continue
		}
		for _, id := range c.Ref.ReqOrder {
			q := c.Ref.Reqs[id]
			if q.SentT >= ev.T || q.Resp == 0 || q.RespT < ev.T || (t >= 0 && q.RespT > t) || q.IsError {
				continue
			}
			if !((q.RID == ev.RID && q.Action == "subscribe") || q.ResRID == ev.RID) {
				continue
			}
			if g == nil {
				g = everReferenced(w)
			}
			rname, _ := splitRID(strings.Replace(ev.RID, "{cid}", c.CID, -1))
			seen := map[string]bool{rname: true}
			stack := []string{rname}
			for len(stack) > 0 {
				n := stack[len(stack)-1]
				stack = stack[:len(stack)-1]
				if n == tname {
					return true
				}
				for m := range g[n] {
					m = strings.Replace(m, "{cid}", c.CID, -1)
					if !seen[m] {
						seen[m] = true
						stack = append(stack, m)
					}
				}
			}
		}
	}
	return false
}

func revokedInFlight(c *Client, rid string, t int) bool {
	for _, ev := range c.Ref.Events {
		if ev.RID != rid || ev.Event != "unsubscribe" || ev.T > t {
			continue
		}
		for _, id := range c.Ref.ReqOrder {
			q := c.Ref.Reqs[id]
			if q.SentT >= ev.T || (q.Resp > 0 && q.RespT < ev.T) {
				continue
			}
			if (q.RID == rid && (q.Action == "subscribe" || q.Action == "get")) || q.Action == "call" || q.Action == "auth" || q.Action == "new" {
				return true
			}
		}
	}
	return false
}

// ---------------------------------------------------------------------------
// C16 / C17: HTTP scenarios

func init() {
	register(&SimProp{
		ID:       "C16",
		Profiles: []*Profile{{Name: "c16-render"}},
		Config:   c16Config,
		Custom:   c16Scenario,
		Monitors: func() []Monitor { return []Monitor{NewMonC16()} },
	})
	register(&SimProp{
		ID:       "C17",
		Profiles: []*Profile{{Name: "c17-http"}},
		Config:   c17Config,
		Custom:   c17Scenario,
		Monitors: func() []Monitor { return []Monitor{NewMonC17()} },
	})
}

// ---------------------------------------------------------------------------
// C10: connection isolation

func init() {
	rids := []string{"t.a", "t.b", "t.{cid}", "t.{cid}", "t.p?u={cid}", "t.p?u=1", "t.u.{cid}.x", "t.c", "t.p?u={cid}&v={cid}"}
	register(&SimProp{
		ID: "C10",
		Profiles: []*Profile{
			{Name: "c10-isolation", MinOps: 12, MaxOps: 60, MaxConns: 4, Versions: []string{"1.2.3", "1.2.0", ""}, Protocol: true, Prologue: 60, RIDs: rids,
				W: weightsWith(map[string]int{"badreq": 0, "burst": 0, "auth": 5, "call": 8, "new": 2, "mutate": 8, "custom": 4, "silent": 0, "sysreset": 2, "qmutate": 0, "qevent": 0,
					"delete": 1, "reaccess": 3, "token": 14, "tokreset": 8, "httpget": 5, "httppost": 6, "subscribe": 16, "get": 5, "unsubscribe": 5, "close": 2, "connect": 6, "cidevent": 10, "connevent": 7}),
				AccessOut: map[string]int{"grant": 14, "calllist": 3, "deny": 2, "denied": 1},
				GetOut:    map[string]int{"ok": 16, "notfound": 1},
				CallOut:   map[string]int{"resource": 4, "result": 5, "err": 1},
				Tokens:    []string{`{"u":1}`, `{"u":2}`, `{"u":3}`, `"tok-a"`, `"tok-b"`, `null`},
			},
		},
		Config: func(t *rapid.T, p *Profile) WorldConfig {
			return WorldConfig{Protocol: true, Resources: []ResDef{
				{Name: "t.a", Type: "model", Model: map[string]Val{"x": Prim("1"), "mine": Ref("t.{cid}")}},
				{Name: "t.b", Type: "collection", Coll: []Val{Prim("1"), Ref("t.a"), Soft("t.{cid}")}},
				{Name: "t.c", Type: "model", Model: map[string]Val{"y": Prim("2")}},
				{Name: "t.{cid}", Type: "model", Model: map[string]Val{"owner": Prim(`"me"`)}, PerCID: true},
				{Name: "t.u.{cid}.x", Type: "collection", Coll: []Val{Prim("7")}, PerCID: true},
				{Name: "t.p", Type: "model", Model: map[string]Val{"x": Prim("1")}, AnyQuery: true, QueryMap: map[string]string{}},
			}}
		},
		Monitors: func() []Monitor { return []Monitor{NewMonC10(), NewMonC02()} },
		Trigger:  triggerData,
	})
}

// triggerRefetchAfterRelease recognises the known finding "refetch-after-
// release": a system.reset matching the resource was delivered, the cache entry
// was released afterwards (its re-fetch still waiting in the reset throttle or
// behind other work), and the delayed re-fetch is then sent without a subscription.
func triggerRefetchAfterRelease(w *World, v Violation) string {
	name := v.RID
	resetT := -1
	for _, e := range w.Log() {
		if e.T >= v.T {
			break
		}
		if e.Kind == "mq_ev" && e.Subject == "system.reset" {
			var p struct {
				Resources []string `json:"resources"`
			}
			if json.Unmarshal(e.Payload, &p) == nil {
				for _, pat := range p.Resources {
					if RefPatternMatch(pat, name) {
						resetT = e.T
					}
				}
			}
		}
		if e.Kind == "mq_unsub" && e.Subject == "event."+name && resetT >= 0 && e.T > resetT {
			return "refetch-after-release"
		}
	}
	return ""
}

// c02Acyclic: acyclic graphs (diamonds, shared children) without events,
// deletes, resets or denials. Here the reference collector is expected to be
// exact, and only the precise condition of the in-flight retention finding is
// excused (WorldConfig.PreciseRetention). Listed twice in C02's profiles.
func c02Acyclic() *Profile {
	p := dataProfile("c02-acyclic", map[string]int{"gcburst": 12, "subscribe": 24, "unsubscribe": 18, "get": 5, "answer": 30, "call": 2, "new": 0,
		"mutate": 0, "refburst": 0, "custom": 0, "silent": 0, "sysreset": 0, "qmutate": 0, "qevent": 0, "httpget": 0, "close": 0, "delete": 0, "reaccess": 0, "token": 0})
	p.Dense, p.Acyclic, p.MaxConns, p.Throttle, p.Prologue = true, true, 2, false, 0
	p.AccessOut = map[string]int{"grant": 1}
	p.GetOut = map[string]int{"ok": 1}
	p.CallOut = map[string]int{"resource": 4, "result": 1}
	return p
}
