package sim

import (
	"encoding/json"
	"fmt"
	"net/url"
	"strings"
)

// RefDispatch is the reference parser for client method strings.
func RefDispatch(m string) (action, rid, method string, ok bool) {
	i := strings.IndexByte(m, '.')
	if i < 0 {
		return m, "", "", m == "version"
	}
	action, rid = m[:i], m[i+1:]
	switch action {
	case "call", "auth":
		j := strings.LastIndexByte(rid, '.')
		if j < 0 {
			return action, rid, "", false
		}
		method = rid[j+1:]
		rid = rid[:j]
		if !refValidPart(method) {
			return action, rid, method, false
		}
	case "get", "subscribe", "unsubscribe", "new":
	default:
		return action, rid, "", false
	}
	return action, rid, method, validRIDRef(rid)
}

func refValidPart(p string) bool {
	if p == "" {
		return false
	}
	for i := 0; i < len(p); i++ {
		b := p[i]
		if b < 33 || b > 126 || b == '.' || b == '*' || b == '>' || b == '?' {
			return false
		}
	}
	return true
}

// cleanSubject: non-empty dot-separated tokens of printable non-space ASCII without * > ?
func cleanSubject(s string) bool {
	if s == "" {
		return false
	}
	for _, tok := range strings.Split(s, ".") {
		if !refValidPart(tok) {
			return false
		}
	}
	return true
}

// refHTTPTarget maps a request URL to (rid, action, ok) as the reference decoder does.
func refHTTPTarget(rawURL, apiPath, method string) (rid, action string, ok bool) {
	u, err := url.ParseRequestURI(rawURL)
	if err != nil {
		return "", "", false
	}
	path := u.RawPath
	if path == "" {
		path = u.Path
	}
	if !strings.HasPrefix(path, apiPath) || len(path) == len(apiPath) {
		return "", "", false
	}
	if path[len(path)-1] == '/' {
		return "", "", false
	}
	rest := path[len(apiPath):]
	if strings.Contains(rest, ".") {
		return "", "", false
	}
	if rest[0] == '/' {
		rest = rest[1:]
	}
	segs := strings.Split(rest, "/")
	for i, s := range segs {
		d, err := url.PathUnescape(s)
		if err != nil {
			return "", "", false
		}
		segs[i] = d
	}
	if method == "POST" {
		if len(segs) < 2 {
			return "", "", false
		}
		action = segs[len(segs)-1]
		segs = segs[:len(segs)-1]
		if !refValidPart(action) {
			return "", "", false
		}
	}
	rid = strings.Join(segs, ".")
	// a decoded question mark starts the query, exactly as in a WebSocket rid
	if !validRIDRef(rid) {
		return "", "", false
	}
	if u.RawQuery != "" {
		rid += "?" + u.RawQuery
	}
	return rid, action, true
}

// ---------------------------------------------------------------------------
// C14: subject hygiene and request validation

type MonC14 struct {
	baseMon
	stepStart   int
	svcSubjects map[string]bool
}

func NewMonC14() *MonC14 {
	m := &MonC14{svcSubjects: map[string]bool{}}
	m.init("C14")
	return m
}

func (m *MonC14) OnLog(w *World, e *LogEntry) {
	switch e.Kind {
	case "mq_ev":
		if e.Subject == "system.tokenReset" {
			var p struct {
				Subject string `json:"subject"`
			}
			if json.Unmarshal(e.Payload, &p) == nil {
				m.svcSubjects[p.Subject] = true
			}
		}
		if strings.HasSuffix(e.Subject, ".query") {
			var p struct {
				Subject string `json:"subject"`
			}
			if json.Unmarshal(e.Payload, &p) == nil {
				m.svcSubjects[p.Subject] = true
			}
		}
	case "mq_sub", "mq_req", "mq_sub_toolong", "mq_req_toolong", "mq_sub_refused", "mq_req_refused":
		if m.svcSubjects[e.Subject] {
			return
		}
		m.class("subject_checked")
		if !cleanSubject(e.Subject) {
			m.viols = append(m.viols, Violation{Property: "C14", Class: "unclean_subject", Step: e.Step, T: e.T, Conn: -1,
				Message: fmt.Sprintf("the gateway used the subject %q (%s), which is not made of non-empty dot-separated tokens of printable ASCII without * > ?", e.Subject, e.Kind)})
		}
	}
}

func (m *MonC14) OnStepEnd(w *World, step int) {
	log := w.Log()
	start := len(log)
	for i := len(log) - 1; i >= 0 && log[i].Step >= step; i-- {
		if log[i].Step == step {
			start = i
		}
	}
	if step >= len(w.Script) {
		return
	}
	op := w.Script[step]
	traffic := 0
	var subjects []string
	for _, e := range log[start:] {
		if e.Kind == "mq_req" || e.Kind == "mq_sub" || e.Kind == "mq_req_toolong" || e.Kind == "mq_sub_toolong" {
			traffic++
			subjects = append(subjects, e.Subject)
		}
	}
	switch op.K {
	case "creq":
		c := w.client(op.C)
		if c == nil || c.CID == "" || !c.Dialed {
			return
		}
		r := c.Ref.Reqs[op.ID]
		if r == nil || r.SentStep != step || r.Dup {
			return
		}
		// the method as the gateway sees it (invalid UTF-8 is replaced when the frame is decoded)
		seen := op.M
		mb, _ := json.Marshal(op.M)
		json.Unmarshal(mb, &seen)
		action, rid, method, ok := RefDispatch(seen)
		hostile := false
		for i := 0; i < len(seen); i++ {
			b := seen[i]
			if !(b == '.' || (b >= '0' && b <= '9') || (b >= 'a' && b <= 'z') || (b >= 'A' && b <= 'Z')) {
				hostile = true
			}
		}
		if hostile && strings.Contains(seen, ".") {
			m.nontriv = true
			m.class("hostile_method")
		}
		if !ok {
			m.class("rejected_method")
			if traffic > 0 {
				m.violate(w, "traffic_for_invalid_request", "c%d: method %q is not a valid request but caused service traffic: %v", op.C, seen, subjects)
			}
			if r.Resp != 1 || !r.IsError || r.Error == nil || r.Error.Code != "system.invalidRequest" {
				code := ""
				if r.Error != nil {
					code = r.Error.Code
				}
				m.violate(w, "invalid_request_not_rejected", "c%d: method %q is not a valid request; expected one system.invalidRequest response, got responses=%d error=%v code=%q", op.C, seen, r.Resp, r.IsError, code)
			}
			return
		}
		if action == "version" || action == "unsubscribe" {
			return
		}
		m.class("accepted_method")
		// exactness: every subject of this step that carries the rid's name is type.name[.method]
		name, _ := splitRID(strings.Replace(rid, "{cid}", c.CID, -1))
		for _, e := range log[start:] {
			if e.Kind != "mq_req" || e.CID != c.CID {
				continue
			}
			want := ""
			switch {
			case strings.HasPrefix(e.Subject, "access."):
				want = "access." + name
			case strings.HasPrefix(e.Subject, "call."):
				if action == "new" {
					method = "new"
				}
				want = "call." + name + "." + method
			case strings.HasPrefix(e.Subject, "auth."):
				want = "auth." + name + "." + method
			}
			if want != "" && e.Subject != want {
				m.violate(w, "inexact_subject", "c%d: request %q produced subject %q, expected %q", op.C, seen, e.Subject, want)
			}
		}
	case "http":
		h := w.httpByID(op.C)
		if h == nil || h.Rejected {
			m.class("http_layer_rejected")
			return
		}
		api := w.Cfg.APIPath
		if api == "" {
			api = "/api/"
		}
		if !strings.HasSuffix(api, "/") {
			api += "/"
		}
		if op.M != "GET" && op.M != "POST" {
			return
		}
		rid, action, ok := refHTTPTarget(op.S, api, op.M)
		if strings.Contains(op.S, "%") {
			m.nontriv = true
			m.class("percent_encoded_path")
		}
		if !ok {
			m.class("rejected_path")
			if traffic > 0 {
				m.violate(w, "traffic_for_invalid_path", "http %s %s is not a valid resource path but caused service traffic: %v", op.M, op.S, subjects)
			}
			if h.Done && h.Code != 404 {
				m.violate(w, "invalid_path_not_404", "http %s %s is not a valid resource path; expected 404, got %d", op.M, op.S, h.Code)
			}
			return
		}
		m.class("accepted_path")
		name, _ := splitRID(strings.Replace(rid, "{cid}", h.CID, -1))
		found := false
		for _, e := range log[start:] {
			if e.Kind == "mq_req" && e.Subject == "access."+name {
				found = true
			}
			if e.Kind == "mq_req_toolong" {
				found = true
			}
		}
		_ = action
		if !found && w.Cfg.HeaderAuth == "" {
			m.violate(w, "valid_path_not_forwarded", "http %s %s maps to %q but no access.%s request was made (subjects: %v)", op.M, op.S, rid, name, subjects)
		}
	}
}

func (m *MonC14) OnEnd(w *World) []Violation { return m.viols }
