package sim

import (
	"encoding/json"
	"fmt"
	"sort"
	"strings"

	"pgregory.net/rapid"
)

// ---------------------------------------------------------------------------
// C19: throttles bound outstanding requests and never stall (scenario generator)

type MonC19 struct {
	baseMon
	Limit    int
	Alive    int    // number of throttles alive (bound = Limit * Alive)
	Mode     string // "reset" | "refs"
	maxSeen  int
	expected int
	sent     int
	armed    bool
	armT     int // requests issued before arming are not governed by the throttle under test
	perItem  bool
	acc, res bool
	preNames map[string]bool // resources some client held when the reset was sent
}

func NewMonC19() *MonC19 { m := &MonC19{Alive: 1}; m.init("C19"); return m }

func (m *MonC19) governed(w *World) int {
	n := 0
	for _, p := range w.mq.Pending() {
		if p.At < m.armT {
			continue
		}
		switch m.Mode {
		case "reset":
			if strings.HasPrefix(p.Subject, "get.") || strings.HasPrefix(p.Subject, "access.") {
				n++
			}
		case "refs":
			if strings.HasPrefix(p.Subject, "get.") {
				n++
			}
		}
	}
	return n
}

func (m *MonC19) OnLog(w *World, e *LogEntry) {
	if m.armed && e.Kind == "mq_req" {
		if (m.Mode == "reset" && (strings.HasPrefix(e.Subject, "get.") || strings.HasPrefix(e.Subject, "access."))) || (m.Mode == "refs" && strings.HasPrefix(e.Subject, "get.")) {
			m.sent++
		}
	}
}

type c19Meta struct {
	Mode     string `json:"mode"`
	Limit    int    `json:"limit"`
	Expected int    `json:"expected"`
	Alive    int    `json:"alive"`
	Arm      bool   `json:"arm"`
	PerItem  bool   `json:"peritem,omitempty"` // judge progress per subscription / resource instead of by total count
	Acc      bool   `json:"acc,omitempty"`
	Res      bool   `json:"res,omitempty"`
}

func (m *MonC19) OnStepEnd(w *World, step int) {
	if step < len(w.Script) && w.Script[step].K == "meta" {
		var c c19Meta
		if json.Unmarshal([]byte(w.Script[step].P), &c) == nil {
			m.Mode, m.Limit, m.expected, m.Alive, m.armed = c.Mode, c.Limit, c.Expected, c.Alive, c.Arm
			m.perItem, m.acc, m.res = c.PerItem, c.Acc, c.Res
			if c.PerItem && m.preNames == nil {
				m.preNames = map[string]bool{}
				for _, cl := range w.Clients {
					for rid := range cl.Ref.Held {
						m.preNames[rid] = true
					}
				}
			}
			if c.Arm && (c.Alive <= 1 || m.armT == 0) {
				m.sent = 0
				m.armT = w.now()
			}
		}
		return
	}
	if !m.armed {
		return
	}
	n := m.governed(w)
	if n > m.maxSeen {
		m.maxSeen = n
	}
	if m.Limit > 0 && n > m.Limit*m.Alive {
		class := "throttle_bound_exceeded"
		m.viols = append(m.viols, Violation{Property: "C19", Class: class, Step: step, Conn: -1, T: w.now(),
			Message: fmt.Sprintf("%s throttle limit %d (x%d throttles alive): %d governed requests outstanding at the quiescent end of step %d", m.Mode, m.Limit, m.Alive, n, step)})
	}
}

func (m *MonC19) OnEnd(w *World) []Violation {
	if m.armed && m.expected >= 0 && m.sent != m.expected && w.Failed == "" {
		m.violate(w, "governed_requests_not_all_sent", "%s throttle limit %d: %d governed requests were sent in total, expected %d (nothing is pending and the system is quiescent)", m.Mode, m.Limit, m.sent, m.expected)
	}
	if st := stalledSubscriptions(w); len(st) > 0 && m.armed {
		m.violate(w, "subscription_stalled", "nothing is outstanding, yet subscriptions still hold events back: %s", trunc(strings.Join(st, ", "), 300))
	}
	if m.armed && m.perItem && w.Failed == "" && w.Deadlock == "" && w.mq.PendingCount() == 0 {
		m.progressPerItem(w)
	}
	if m.Limit > 0 && m.expected > m.Limit {
		m.class("fanout_exceeds_limit")
	}
	if m.maxSeen == m.Limit && m.Limit > 0 {
		m.class("bound_reached")
	}
	return m.viols
}

// progressPerItem: at the quiescent end, with nothing pending, every
// subscription that is still held directly on an open connection has had its
// access re-requested since the reset, and every resource that is still held by
// some client has been re-fetched since the reset - whatever was unsubscribed,
// closed or answered with an error in between.
func (m *MonC19) progressPerItem(w *World) {
	accSeen := map[string]bool{} // cid|name
	getSeen := map[string]bool{}
	for _, e := range w.Log() {
		if e.T < m.armT || e.Kind != "mq_req" {
			continue
		}
		if strings.HasPrefix(e.Subject, "access.") {
			accSeen[e.CID+"|"+e.Subject[7:]] = true
		} else if strings.HasPrefix(e.Subject, "get.") {
			getSeen[e.Subject[4:]] = true
		}
	}
	for _, c := range w.Clients {
		if !c.Dialed || c.Closed || c.EOF || c.Ref.Closed {
			continue
		}
		for rid, n := range c.Ref.Direct {
			if n <= 0 || c.Ref.AmbigDirect[rid] {
				continue
			}
			if _, held := c.Ref.Held[rid]; !held {
				continue
			}
			if m.acc && !accSeen[c.CID+"|"+rid] {
				m.viols = append(m.viols, Violation{Property: "C19", Class: "access_recheck_never_sent", Step: w.step, Conn: c.Idx, RID: rid, T: w.now(),
					Message: fmt.Sprintf("reset throttle limit %d: c%d still holds %s directly, nothing is pending, yet no access request for it was sent since the reset", m.Limit, c.Idx, rid)})
				return
			}
		}
		if m.res {
			for rid := range c.Ref.Held {
				if m.preNames[rid] && !getSeen[rid] {
					m.viols = append(m.viols, Violation{Property: "C19", Class: "refetch_never_sent", Step: w.step, Conn: c.Idx, RID: rid, T: w.now(),
						Message: fmt.Sprintf("reset throttle limit %d: c%d still holds %s, nothing is pending, yet no get request for it was sent since the reset", m.Limit, c.Idx, rid)})
					return
				}
			}
		}
	}
}

func c19Config(t *rapid.T, p *Profile) WorldConfig {
	limit := rapid.SampledFrom([]int{0, 1, 1, 2, 2, 3, 5}).Draw(t, "limit")
	mode := rapid.SampledFrom([]string{"reset", "reset", "refs"}).Draw(t, "mode")
	cfg := WorldConfig{Protocol: true}
	if mode == "reset" {
		cfg.ResetThrottle = limit
		n := rapid.IntRange(1, 12).Draw(t, "nres")
		if rapid.IntRange(0, 9).Draw(t, "big") == 0 {
			n = rapid.IntRange(20, 40).Draw(t, "nresbig")
		}
		for i := 0; i < n; i++ {
			cfg.Resources = append(cfg.Resources, ResDef{Name: fmt.Sprintf("t.r%d", i), Type: "model", Model: map[string]Val{"x": Prim("1")}})
		}
	} else {
		cfg.ReferenceThrottle = limit
		// a reference tree of width/depth <= 4 with shared and cyclic children
		n := rapid.IntRange(2, 14).Draw(t, "nnodes")
		for i := 0; i < n; i++ {
			m := map[string]Val{"x": Prim("1")}
			w := rapid.IntRange(0, 4).Draw(t, "width")
			for k := 0; k < w; k++ {
				var target int
				if rapid.IntRange(0, 4).Draw(t, "back") == 0 {
					target = rapid.IntRange(0, n-1).Draw(t, "any") // shared or cyclic
				} else {
					target = rapid.IntRange(i, n-1).Draw(t, "fwd")
				}
				m[fmt.Sprintf("c%d", k)] = Ref(fmt.Sprintf("t.r%d", target))
			}
			cfg.Resources = append(cfg.Resources, ResDef{Name: fmt.Sprintf("t.r%d", i), Type: "model", Model: m})
		}
		// leaves that only a later event references
		for i := 0; i < 9; i++ {
			cfg.Resources = append(cfg.Resources, ResDef{Name: fmt.Sprintf("t.x%d", i), Type: "model", Model: map[string]Val{"x": Prim("1")}})
		}
	}
	return cfg
}

// answerAll answers pending requests in the drawn order policy until nothing is pending.
func answerAll(t *rapid.T, w *World, policy string, only string) {
	answerAllFaulty(t, w, policy, only, 0)
}

// answerAllFaulty: as answerAll, with that percentage of the get requests
// answered with an error or a timeout (every answer, whatever it says, gives
// the throttle's place to the next waiting request).
func answerAllFaulty(t *rapid.T, w *World, policy string, only string, faulty int) {
	for i := 0; i < 3000; i++ {
		pend := w.PendingSorted()
		var cand []PendingView
		for _, p := range pend {
			if only == "" || strings.HasPrefix(p.P.Subject, only) {
				cand = append(cand, p)
			}
		}
		if len(cand) == 0 {
			return
		}
		pick := cand[0]
		switch policy {
		case "oldest":
			for _, p := range cand {
				if p.P.Seq < pick.P.Seq {
					pick = p
				}
			}
		case "newest":
			for _, p := range cand {
				if p.P.Seq > pick.P.Seq {
					pick = p
				}
			}
		default:
			pick = cand[rapid.IntRange(0, len(cand)-1).Draw(t, "pick")]
		}
		op := Op{K: "ans", S: pick.P.Subject, Q: pick.P.Query, A: actorEnc(pick.Actor), N: pick.Ord, O: "ok"}
		if faulty > 0 && strings.HasPrefix(pick.P.Subject, "get.") && rapid.IntRange(0, 99).Draw(t, "faultyget") < faulty {
			switch rapid.IntRange(0, 2).Draw(t, "faultkind") {
			case 0:
				op.O, op.P = "err", "system.notFound"
			case 1:
				op.O, op.P = "err", "system.internalError"
			default:
				op.O = "timeout"
			}
		}
		w.Exec(op)
		if w.Failed != "" || w.Deadlock != "" {
			return
		}
	}
}

func c19Scenario(t *rapid.T, w *World, p *Profile) {
	var m *MonC19
	for _, x := range w.Monitors {
		if c, ok := x.(*MonC19); ok {
			m = c
		}
	}
	policy := rapid.SampledFrom([]string{"oldest", "newest", "drawn", "drawn"}).Draw(t, "policy")
	nres := 0
	for _, d := range w.Cfg.Resources {
		if strings.HasPrefix(d.Name, "t.r") {
			nres++
		}
	}
	if w.Cfg.ReferenceThrottle > 0 || (w.Cfg.ResetThrottle == 0 && strings.Contains(fmt.Sprint(w.Cfg.Resources[0].Model), "r")) && false {
	}
	isRefs := false
	for _, d := range w.Cfg.Resources {
		for _, v := range d.Model {
			if v.K == 'r' {
				isRefs = true
			}
		}
	}
	if w.Cfg.ResetThrottle > 0 {
		isRefs = false
	}
	if isRefs || w.Cfg.ReferenceThrottle > 0 {
		nconn := rapid.IntRange(1, 3).Draw(t, "nconn")
		for i := 0; i < nconn; i++ {
			w.Exec(Op{K: "connect", C: i})
			w.Exec(Op{K: "creq", C: i, ID: 1, M: "version", P: `{"protocol":"1.2.3"}`})
		}
		setMeta(w, c19Meta{Mode: "refs", Limit: w.Cfg.ReferenceThrottle, Expected: -1, Alive: 1, Arm: true})
		// failing gets: an error or timeout answer frees the place like any other
		faulty := rapid.SampledFrom([]int{0, 0, 25, 60, 100}).Draw(t, "faultygets")
		if faulty > 0 {
			m.class("refs_with_failing_gets")
		}
		// one root per connection, loaded one connection at a time so that the bound is tight (N)
		for i := 0; i < nconn; i++ {
			root := fmt.Sprintf("t.r%d", rapid.IntRange(0, nres-1).Draw(t, "root"))
			w.Exec(Op{K: "creq", C: i, ID: 2, M: "subscribe." + root})
			// answer gets in the policy order, access at a drawn moment
			answerAllFaulty(t, w, policy, "", faulty)
		}
		// references added by one change event to a model that has been sent are
		// followed under the same bound, per connection holding the model
		if w.Cfg.ReferenceThrottle > 0 && w.Failed == "" && w.Deadlock == "" && rapid.Bool().Draw(t, "evrefs") {
			var models []string
			for _, d := range w.Cfg.Resources {
				if d.Type == "model" && strings.HasPrefix(d.Name, "t.r") {
					models = append(models, d.Name)
				}
			}
			if len(models) > 0 {
				name := rapid.SampledFrom(models).Draw(t, "evmodel")
				holders := 0
				for _, c := range w.Clients {
					if r := c.Ref.Held[name]; r != nil && r.Type == 'm' {
						holders++
					}
				}
				if holders > 0 {
					k := w.Cfg.ReferenceThrottle + rapid.IntRange(1, 3).Draw(t, "evextra")
					vals := ""
					for i := 0; i < k; i++ {
						if i > 0 {
							vals += ","
						}
						vals += fmt.Sprintf(`"e%d":{"rid":"t.x%d"}`, i, i)
					}
					setMeta(w, c19Meta{Mode: "refs", Limit: w.Cfg.ReferenceThrottle, Expected: -1, Alive: holders, Arm: true})
					w.Exec(Op{K: "rawev", S: "event." + name + ".change", P: `{"values":{` + vals + `}}`, Key: "c19:event-adds-references"})
					m.class("event_adds_references_beyond_limit")
					answerAllFaulty(t, w, policy, "", faulty)
				}
			}
		}
		if w.Cfg.ReferenceThrottle > 0 {
			m.class("refs_throttled")
			if m.maxSeen >= w.Cfg.ReferenceThrottle && policy != "oldest" {
				m.nontriv = true
			}
		}
		return
	}
	limit := w.Cfg.ResetThrottle
	nconn := rapid.IntRange(1, 6).Draw(t, "nconn")
	if nres == 1 && rapid.IntRange(0, 3).Draw(t, "many") == 0 {
		nconn = rapid.IntRange(16, 32).Draw(t, "nconnbig") // the #217 shape: many connections on one resource
	}
	subs := 0
	for i := 0; i < nconn; i++ {
		w.Exec(Op{K: "connect", C: i})
		k := rapid.IntRange(1, 3).Draw(t, "nsub")
		seen := map[int]bool{}
		for j := 0; j < k; j++ {
			r := rapid.IntRange(0, nres-1).Draw(t, "res")
			if seen[r] {
				continue
			}
			seen[r] = true
			w.Exec(Op{K: "creq", C: i, ID: uint64(j + 1), M: fmt.Sprintf("subscribe.t.r%d", r)})
			subs++
		}
	}
	answerAll(t, w, "oldest", "")
	if w.Failed != "" || w.Deadlock != "" {
		return
	}
	loaded := map[string]bool{}
	for _, c := range w.Clients {
		for rid := range c.Ref.Held {
			loaded[rid] = true
		}
	}
	withRes := rapid.IntRange(0, 3).Draw(t, "withres") > 0
	withAcc := rapid.IntRange(0, 3).Draw(t, "withacc") > 0
	if !withRes && !withAcc {
		withAcc = true
	}
	payload := `{`
	expected := 0
	if withRes {
		payload += `"resources":[">"]`
		expected += len(loaded)
	}
	if withAcc {
		if withRes {
			payload += ","
		}
		payload += `"access":["t.>"]`
		expected += subs
	}
	payload += `}`
	// disturbed: while the throttle works through its queue, clients unsubscribe
	// and disconnect and the service answers with errors; progress is then judged
	// per subscription and resource, not by the total
	disturbed := limit > 0 && rapid.IntRange(0, 2).Draw(t, "disturbed") == 0
	if disturbed {
		setMeta(w, c19Meta{Mode: "reset", Limit: limit, Expected: -1, Alive: 1, Arm: true, PerItem: true, Acc: withAcc, Res: withRes})
	} else {
		setMeta(w, c19Meta{Mode: "reset", Limit: limit, Expected: expected, Alive: 1, Arm: true})
	}
	w.Exec(Op{K: "sysreset", P: payload})
	if m.Limit == 0 {
		if got := m.governed(w); got != m.expected {
			m.violate(w, "unthrottled_not_sent_at_once", "with limit 0 the reset should send all %d governed requests at once, %d are outstanding", m.expected, got)
		}
	}
	if rapid.IntRange(0, 4).Draw(t, "overlap") == 0 && m.Limit > 0 {
		// a second reset overlapping the first: two throttles alive; re-fetches already outstanding are not repeated
		setMeta(w, c19Meta{Mode: "reset", Limit: limit, Expected: -1, Alive: 2, Arm: true, PerItem: disturbed, Acc: withAcc, Res: withRes})
		w.Exec(Op{K: "sysreset", P: payload})
		m.class("overlapping_resets")
	}
	if disturbed {
		c19Disturbed(t, w, m, policy)
	} else {
		answerAll(t, w, policy, "")
	}
	if m.Limit > 0 && m.expected > m.Limit && policy != "oldest" {
		m.nontriv = true
	}
	if m.Limit > 0 && m.expected > m.Limit {
		m.class("reset_fanout_exceeds_limit")
	}
	if nconn >= 16 {
		m.class("many_connections_one_resource")
	}
}

// c19Disturbed answers everything in the policy order, interleaved with
// unsubscribes of resources whose re-check may still be waiting, connection
// closes, and error answers.
func c19Disturbed(t *rapid.T, w *World, m *MonC19, policy string) {
	m.class("disturbed_reset")
	for i := 0; i < 3000; i++ {
		pend := w.PendingSorted()
		if len(pend) == 0 {
			return
		}
		switch rapid.IntRange(0, 9).Draw(t, "disturb") {
		case 0, 1: // unsubscribe something that is held
			var cs []*Client
			for _, c := range w.Clients {
				if c.Dialed && !c.Closed && !c.EOF {
					cs = append(cs, c)
				}
			}
			if len(cs) > 0 {
				c := cs[rapid.IntRange(0, len(cs)-1).Draw(t, "dconn")]
				var rids []string
				for rid, n := range c.Ref.Direct {
					if n > 0 {
						rids = append(rids, rid)
					}
				}
				sort.Strings(rids)
				if len(rids) > 0 {
					rid := rids[rapid.IntRange(0, len(rids)-1).Draw(t, "drid")]
					id := c.NextID
					c.NextID++
					w.Exec(Op{K: "creq", C: c.Idx, ID: id, M: "unsubscribe." + rid})
					m.class("unsubscribe_during_throttled_reset")
					m.nontriv = true
				}
			}
			continue
		case 2:
			if rapid.IntRange(0, 2).Draw(t, "dclose") == 0 {
				var cs []*Client
				for _, c := range w.Clients {
					if c.Dialed && !c.Closed && !c.EOF {
						cs = append(cs, c)
					}
				}
				if len(cs) > 1 {
					c := cs[rapid.IntRange(0, len(cs)-1).Draw(t, "dconn")]
					w.Exec(Op{K: "close", C: c.Idx})
					m.class("close_during_throttled_reset")
				}
			}
			continue
		}
		pick := pend[0]
		switch policy {
		case "oldest":
			for _, p := range pend {
				if p.P.Seq < pick.P.Seq {
					pick = p
				}
			}
		case "newest":
			for _, p := range pend {
				if p.P.Seq > pick.P.Seq {
					pick = p
				}
			}
		default:
			pick = pend[rapid.IntRange(0, len(pend)-1).Draw(t, "pick")]
		}
		op := Op{K: "ans", S: pick.P.Subject, Q: pick.P.Query, A: actorEnc(pick.Actor), N: pick.Ord, O: "ok"}
		if rapid.IntRange(0, 7).Draw(t, "derr") == 0 {
			if rapid.Bool().Draw(t, "dtimeout") {
				op.O = "timeout"
			} else {
				op.O, op.P = "err", "system.internalError"
			}
			m.class("error_answer_during_throttled_reset")
		}
		w.Exec(op)
		if w.Failed != "" || w.Deadlock != "" {
			return
		}
	}
}

func setMeta(w *World, c c19Meta) {
	b, _ := json.Marshal(c)
	w.Exec(Op{K: "meta", P: string(b)})
}
