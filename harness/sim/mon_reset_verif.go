//go:build verif

package sim

import (
	"encoding/json"
	"fmt"
	"reflect"
	"strings"

	"github.com/resgateio/resgate/server"
	"github.com/resgateio/resgate/server/rescache"
)

// ---------------------------------------------------------------------------
// C12 (simulator part): a system reset re-fetches exactly the matching loaded
// cached resources and re-requests access exactly for matching direct
// subscriptions. Uses the verif snapshots as the pre-state of each step.

type MonC12 struct {
	baseMon
	prevCache []rescache.VerifEntry
	prevConns []server.VerifConn
	prevHeld  map[int]map[string]bool
	prevPend  map[string]int // access requests pending before the step: cid|name?query
	stepStart int
}

func NewMonC12() Monitor {
	m := &MonC12{}
	m.init("C12")
	return m
}

func (m *MonC12) snapshot(w *World) {
	if !w.started || w.Failed != "" || w.Deadlock != "" {
		m.prevCache, m.prevConns = nil, nil
		return
	}
	m.prevCache = w.CacheSnapshot()
	m.prevConns = w.ConnSnapshot()
	m.prevHeld = map[int]map[string]bool{}
	for _, c := range w.Clients {
		h := map[string]bool{}
		for rid := range c.Ref.Held {
			h[rid] = true
		}
		m.prevHeld[c.Idx] = h
	}
	m.stepStart = w.now()
	m.prevPend = map[string]int{}
	for _, p := range w.mq.Pending() {
		if strings.HasPrefix(p.Subject, "access.") {
			m.prevPend[p.CID+"|"+p.Subject[7:]+"?"+p.Query]++
		}
	}
}

func sameJSON(a, b string) bool {
	var x, y interface{}
	if json.Unmarshal([]byte(a), &x) != nil || json.Unmarshal([]byte(b), &y) != nil {
		return false
	}
	return reflect.DeepEqual(x, y)
}

func (m *MonC12) OnStepEnd(w *World, step int) {
	defer m.snapshot(w)
	if m.prevCache == nil || step >= len(w.Script) {
		return
	}
	op := w.Script[step]
	log := w.Log()
	if m.stepStart > len(log) {
		return
	}
	stepLog := log[m.stepStart:]
	switch op.K {
	case "sysreset":
		if w.Cfg.ResetThrottle > 0 {
			return
		}
		var p struct {
			Resources []string `json:"resources"`
			Access    []string `json:"access"`
		}
		if json.Unmarshal([]byte(op.P), &p) != nil {
			return
		}
		match := func(pats []string, name string) bool {
			for _, pat := range pats {
				if RefPatternMatch(pat, name) {
					return true
				}
			}
			return false
		}
		gets := map[string]int{}
		accs := map[string]int{}
		for _, e := range stepLog {
			if e.Kind == "mq_req" && strings.HasPrefix(e.Subject, "get.") {
				gets[e.Subject[4:]+"?"+e.Query]++
			}
			if e.Kind == "mq_req" && strings.HasPrefix(e.Subject, "access.") {
				accs[e.CID+"|"+e.Subject[7:]+"?"+e.Query]++
			}
		}
		wild, hit, miss := false, false, false
		for _, pat := range p.Resources {
			if RefPatternValid(pat) && strings.ContainsAny(pat, "*>") {
				wild = true
			}
		}
		expected := map[string]bool{}
		for _, e := range m.prevCache {
			if e.Locked || e.QueueLen > 0 {
				// handling is queued behind a query-event lock: nothing is required in this step
				for _, r := range e.Resources {
					delete(gets, e.Name+"?"+r.Query)
				}
				continue
			}
			mt := match(p.Resources, e.Name)
			for _, r := range e.Resources {
				k := e.Name + "?" + r.Query
				loaded := r.State >= 3
				switch {
				case !mt:
					if loaded {
						miss = true
					}
					if gets[k] > 0 {
						m.violate(w, "refetch_of_non_matching", "system.reset %s re-fetched %s which matches no listed resource pattern", op.P, k)
					}
				case loaded && !r.Resetting:
					hit = true
					expected[k] = true
					if gets[k] != 1 {
						m.violate(w, "refetch_count", "system.reset %s: loaded cached resource %s matches but was re-fetched %d times (expected once, with its normalised query)", op.P, k, gets[k])
					}
				case loaded && r.Resetting:
					if gets[k] != 0 {
						m.violate(w, "refetch_while_resetting", "system.reset %s: %s already had a re-fetch outstanding but another get was sent", op.P, k)
					}
				case r.State == 2 && !r.Resetting:
					// cached, its initial get outstanding: the answer to that get may
					// predate what the reset announces, so it is fetched again
					m.class("reset_while_initial_get_outstanding")
					if gets[k] != 1 {
						m.violate(w, "refetch_count", "system.reset %s: cached resource %s (initial get outstanding) matches but was re-fetched %d times (expected once)", op.P, k, gets[k])
					}
				}
				delete(gets, k)
			}
		}
		for k, n := range gets {
			if n > 0 {
				m.violate(w, "refetch_of_uncached", "system.reset %s caused get request(s) for %s which was not cached", op.P, k)
			}
		}
		if wild && hit && miss {
			m.nontriv = true
			m.class("wildcard_hit_and_miss")
		}
		if len(expected) > 0 {
			m.class("reset_with_refetch")
		}
		// access re-requests
		locked := map[string]bool{}
		for _, e := range m.prevCache {
			if e.Locked || e.QueueLen > 0 {
				locked[e.Name] = true
			}
		}
		for _, vc := range m.prevConns {
			for _, s := range vc.Subs {
				name, q := splitRID(strings.Replace(s.RID, "{cid}", vc.CID, -1))
				k := vc.CID + "|" + name + "?" + q
				if locked[name] {
					delete(accs, k)
					continue
				}
				want := 0
				if s.Direct > 0 && match(p.Access, name) && s.State >= 2 {
					want = 1
				}
				if s.QueueFlag != 0 || s.State < 2 {
					// deferred until the subscription stops queueing / is not loaded yet
					delete(accs, k)
					continue
				}
				if m.prevPend[k] > 0 && accs[k] <= want {
					// an access request for the subscription was already in flight: the re-check rides on it (DESIGN 3.6)
					m.class("reaccess_rides_on_pending_request")
					delete(accs, k)
					continue
				}
				if s.Direct < 0 {
					delete(accs, k)
					continue
				}
				if accs[k] != want {
					m.viols = append(m.viols, Violation{Property: "C12", Class: "reaccess_count", Step: step, Conn: w.ActorOf(vc.CID), RID: s.RID, T: w.now(),
						Message: fmt.Sprintf("system.reset %s: connection a%d subscription %s (direct=%d) got %d access re-requests, expected %d", op.P, w.ActorOf(vc.CID), s.RID, s.Direct, accs[k], want)})
				}
				if want == 1 {
					m.class("reset_with_reaccess")
				}
				delete(accs, k)
			}
		}
		for k, n := range accs {
			if n > 0 {
				m.violate(w, "reaccess_unexpected", "system.reset %s caused %d access request(s) for %s which is not a direct subscription on a matching resource", op.P, n, k)
			}
		}
	case "ans":
		if !strings.HasPrefix(op.S, "get.") {
			return
		}
		name := op.S[4:]
		// was this a re-fetch answer for a loaded resource?
		var pre *rescache.VerifResource
		for i := range m.prevCache {
			if m.prevCache[i].Name == name && !m.prevCache[i].Locked {
				for j := range m.prevCache[i].Resources {
					r := &m.prevCache[i].Resources[j]
					if r.Query == op.Q && r.Resetting && r.State >= 3 {
						pre = r
					}
				}
			}
		}
		if pre == nil {
			return
		}
		var payload []byte
		errStr := ""
		for _, e := range stepLog {
			if e.Kind == "mq_complete" && e.Subject == op.S {
				payload, errStr = e.Payload, e.Err
			}
		}
		m.class("refetch_answer")
		frames := 0
		deletes := map[int]bool{}
		for _, e := range stepLog {
			if e.Kind != "frame" {
				continue
			}
			var f struct {
				Event string `json:"event"`
			}
			if json.Unmarshal(e.Payload, &f) != nil || f.Event == "" {
				continue
			}
			i := strings.LastIndexByte(f.Event, '.')
			rid, ev := f.Event[:i], f.Event[i+1:]
			c := w.Clients[e.Conn]
			n2, _ := w.expandRID(c, rid)
			if n2 == name && (ev == "change" || ev == "add" || ev == "remove") {
				frames++
			}
			if n2 == name && ev == "delete" {
				deletes[e.Conn] = true
			}
		}
		var r struct {
			Result *struct {
				Model      json.RawMessage `json:"model"`
				Collection json.RawMessage `json:"collection"`
			} `json:"result"`
			Error *struct {
				Code string `json:"code"`
			} `json:"error"`
		}
		if errStr == "" && json.Unmarshal(payload, &r) == nil && r.Result != nil {
			data := r.Result.Model
			if data == nil {
				data = r.Result.Collection
			}
			if data != nil && sameJSON(string(data), pre.JSON) {
				m.class("refetch_unchanged")
				if frames > 0 {
					m.violate(w, "event_for_unchanged_content", "re-fetch of %s?%s returned unchanged content but %d state event frame(s) were sent", name, op.Q, frames)
				}
			} else if data != nil {
				m.class("refetch_changed")
				m.nontriv = true
			}
		}
	}
}

func (m *MonC12) OnEnd(w *World) []Violation { return m.viols }
