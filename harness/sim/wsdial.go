package sim

import (
	"bufio"
	"net"
	"net/http"
	"net/http/httptest"

	"github.com/gorilla/websocket"
)

// In-process WebSocket dialing over net.Pipe (after posener/wstest, MIT), kept
// here so that the client side of the pipe can be closed when a dial never
// completes (a handler that returns without answering leaves the dialer blocked).

type wsRecorder struct {
	httptest.ResponseRecorder
	server net.Conn
}

func (r *wsRecorder) runServer(h http.Handler) {
	req, err := http.ReadRequest(bufio.NewReader(r.server))
	if err != nil {
		return
	}
	h.ServeHTTP(r, req)
}

// Hijack hands the server side of the pipe to the handler.
func (r *wsRecorder) Hijack() (net.Conn, *bufio.ReadWriter, error) {
	rw := bufio.NewReadWriter(bufio.NewReader(r.server), bufio.NewWriter(r.server))
	return r.server, rw, nil
}

// WriteHeader writes a non-upgrade response to the client.
func (r *wsRecorder) WriteHeader(code int) {
	resp := http.Response{StatusCode: code, Header: r.Header()}
	resp.Write(r.server)
}

func newPipeDialer(h http.Handler) (*websocket.Dialer, net.Conn) {
	client, server := net.Pipe()
	rec := &wsRecorder{server: server}
	go rec.runServer(h)
	return &websocket.Dialer{NetDial: func(network, addr string) (net.Conn, error) { return client, nil }}, client
}
