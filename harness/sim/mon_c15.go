package sim

import (
	"encoding/json"
	"fmt"
	"strings"

	"pgregory.net/rapid"
)

// ---------------------------------------------------------------------------
// C15: crash freedom and containment of malformed input (simulator part).
// Injection ops carry Key "inject:<class>". A crash of the gateway kills the
// test binary; the driver attributes it through the journal.

type MonC15 struct {
	baseMon
	pre map[string]string // name?query -> cached JSON before the step (hooks)
	// loadedStep: name?query -> step at whose end the resource was first seen
	// loaded in the cache (hooks), forgotten when it leaves the cache
	loadedStep map[string]int
}

func NewMonC15() *MonC15 { m := &MonC15{}; m.init("C15"); return m }

func (m *MonC15) OnStepEnd(w *World, step int) {
	defer func() {
		m.pre = cacheJSON(w)
		if m.loadedStep == nil {
			m.loadedStep = map[string]int{}
		}
		for k := range m.loadedStep {
			if _, ok := m.pre[k]; !ok {
				delete(m.loadedStep, k)
			}
		}
		for k := range m.pre {
			if _, ok := m.loadedStep[k]; !ok {
				m.loadedStep[k] = step
			}
		}
	}()
	if step >= len(w.Script) {
		return
	}
	op := w.Script[step]
	if !strings.HasPrefix(op.Key, "inject:") {
		return
	}
	class := op.Key[7:]
	m.class("inject_" + strings.SplitN(class, "/", 2)[0])
	log := w.Log()
	start := len(log)
	for i := len(log) - 1; i >= 0 && log[i].Step >= step; i-- {
		if log[i].Step == step {
			start = i
		}
	}
	delivered := false
	for _, e := range log[start:] {
		if e.Kind == "mq_ev" || e.Kind == "mq_complete" || e.Kind == "cframe" {
			delivered = true
		}
	}
	if !delivered {
		return
	}
	if class == "refetch/answer" || class == "get/answer" {
		// whether the answered get is a re-fetch is a fact of this run's log, not of
		// the script (a shrunk script may have lost the first fetch)
		class = "get/answer"
		for _, e := range log[start:] {
			if e.Kind != "mq_complete" || !strings.HasPrefix(e.Subject, "get.") {
				continue
			}
			if m.pre != nil {
				// a re-fetch is a get requested for a resource that was loaded already
				// (a first get stays a first get even if an aliasing query's answer
				// has loaded the resource while it was outstanding)
				reqStep := -1
				for _, p := range log[:start] {
					if p.Kind == "mq_req" && p.Req == e.Req {
						reqStep = p.Step
					}
				}
				if ls, loaded := m.loadedStep[e.Subject[4:]+"?"+e.Query]; loaded && reqStep >= 0 && ls < reqStep {
					class = "refetch/answer"
				}
				continue
			}
			for _, p := range log[:start] {
				if p.Kind == "mq_complete" && p.Subject == e.Subject && p.Query == e.Query && p.Err == "" && strings.Contains(string(p.Payload), `"result"`) && !strings.Contains(string(p.Payload), `"error"`) {
					class = "refetch/answer"
				}
			}
		}
	}
	if json.Valid([]byte(op.P)) {
		m.nontriv = true
	}
	contain := strings.HasPrefix(class, "event/") || strings.HasPrefix(class, "query/") || strings.HasPrefix(class, "refetch/") || strings.HasPrefix(class, "system/") || strings.HasPrefix(class, "conn/")
	if strings.HasPrefix(class, "event/") || strings.HasPrefix(class, "system/") || strings.HasPrefix(class, "conn/") {
		// a malformed event does nothing: in particular it makes the gateway ask the
		// services nothing (an answer, by contrast, also ends a wait and may release
		// requests that were queued behind it)
		for _, e := range log[start:] {
			if e.Kind == "mq_req" {
				m.viols = append(m.viols, Violation{Property: "C15", Class: "malformed_message_caused_request", Step: step, Conn: -1, T: e.T,
					Message: fmt.Sprintf("the malformed message (%s) %q made the gateway request %s %s", class, trunc(op.P, 120), e.Subject, trunc(string(e.Payload), 120))})
				break
			}
		}
	}
	if class == "get/answer" {
		// a malformed answer to a first get makes an error entry for that request; it
		// must not touch what is already loaded (such as the resource another
		// query's answer has loaded under the same normalised query meanwhile)
		if post := cacheJSON(w); m.pre != nil && post != nil {
			released := map[string]bool{}
			for _, e := range log[start:] {
				if e.Kind == "mq_unsub" && strings.HasPrefix(e.Subject, "event.") {
					released[e.Subject[6:]] = true
				}
			}
			for k, v := range m.pre {
				name, _ := splitRID(k)
				if released[name] {
					continue
				}
				nv, ok := post[k]
				if !ok && !m.heldByAClient(w, k) {
					// a query resource without subscribers is unregistered at once: the
					// answer released the last waiting get request
					m.class("loaded_resource_left_with_its_last_subscriber")
					continue
				}
				if !ok || (nv != v && !sameJSONText(nv, v)) {
					m.violate(w, "loaded_resource_hit_by_malformed_get_answer", "the malformed get answer %q changed or dropped the loaded %s (was %s, now %s)", trunc(op.P, 120), k, trunc(v, 150), trunc(nv, 150))
					break
				}
			}
		}
	}
	if !contain {
		return
	}
	// nothing derived from the message may reach a client
	qname := ""
	if strings.HasPrefix(class, "query/") {
		for _, e := range log[start:] {
			if e.Kind == "mq_complete" && strings.HasPrefix(e.Subject, "_EVQ.") {
				qname = w.qevSubjects[e.Subject]
			}
		}
		// the answer also ends the query event's lock on the resource queue: events,
		// get answers and access verdicts that arrived during the lock are released in this
		// step and frame legitimately; then only the cache check applies
		for _, e := range log[start:] {
			if e.Kind != "mq_complete" || !strings.HasPrefix(e.Subject, "_EVQ.") {
				continue
			}
			name := w.qevSubjects[e.Subject]
			// the start of the lock: of the first of a run of query events that took
			// the lock one after the other (a query event queued during a lock takes
			// it again in the step that releases it; what was queued keeps waiting)
			lockT, out, zeroStep := -1, 0, -2
			for _, p := range log[:start] {
				if !strings.HasPrefix(p.Subject, "_EVQ.") || w.qevSubjects[p.Subject] != name {
					continue
				}
				switch p.Kind {
				case "mq_req":
					if out == 0 && p.Step != zeroStep {
						lockT = p.T
					}
					out++
				case "mq_complete":
					out--
					if out == 0 {
						zeroStep = p.Step
					}
				}
			}
			for _, p := range log[:start] {
				if lockT >= 0 && p.T > lockT && ((p.Kind == "mq_ev" && strings.HasPrefix(p.Subject, "event."+name+".")) || (p.Kind == "mq_complete" && (p.Subject == "access."+name || p.Subject == "get."+name))) {
					m.class("query_answer_releases_queued_work")
					goto cache
				}
			}
		}
	}
	for _, e := range log[start:] {
		if e.Kind != "frame" {
			continue
		}
		var f struct {
			Event string `json:"event"`
		}
		if json.Unmarshal(e.Payload, &f) == nil && f.Event != "" {
			if qname != "" {
				// a query answer can only make events of its own resource. Frames of
				// other resources in this step are work the lock had held back: a
				// subscriber that asked the cache for the (loaded) resource during the
				// lock gets it now, and the event that waited for it goes out
				if i := strings.LastIndexByte(f.Event, '.'); i > 0 {
					if n, _ := splitRID(f.Event[:i]); n != qname {
						m.class("query_answer_releases_other_resources_frame")
						continue
					}
				}
			}
			m.viols = append(m.viols, Violation{Property: "C15", Class: "malformed_message_leaked", Step: step, Conn: e.Conn, T: e.T,
				Message: fmt.Sprintf("the malformed message (%s) %q produced the client frame %s", class, trunc(op.P, 120), trunc(string(e.Payload), 200))})
			break
		}
	}
cache:
	// the cache stays unchanged
	post := cacheJSON(w)
	if m.pre != nil && post != nil {
		for k, v := range m.pre {
			if nv, ok := post[k]; ok && nv != v && !sameJSONText(nv, v) {
				m.violate(w, "cache_changed_by_malformed_message", "the malformed message (%s) %q changed the cached %s from %s to %s", class, trunc(op.P, 120), k, trunc(v, 150), trunc(nv, 150))
			}
		}
	}
}

// heldByAClient reports whether some open client holds a resource id of the
// cached resource key (name?normalisedQuery).
func (m *MonC15) heldByAClient(w *World, key string) bool {
	name, norm := splitRID(key)
	d := w.Svc.defFor(name, w.CIDs())
	for _, c := range w.Clients {
		if !c.Dialed || c.EOF || c.Closed {
			continue
		}
		for rid, r := range c.Ref.Held {
			if r.Type == 'e' {
				continue
			}
			n, q := splitRID(strings.Replace(rid, "{cid}", c.CID, -1))
			if n != name {
				continue
			}
			if d != nil {
				if nq, ok := d.Norm(q); ok {
					q = nq
				}
			}
			if q == norm {
				return true
			}
		}
	}
	return false
}

func sameJSONText(a, b string) bool {
	x, err1 := parseJSON([]byte(a))
	y, err2 := parseJSON([]byte(b))
	return err1 == nil && err2 == nil && jsonOf(x) == jsonOf(y)
}

func (m *MonC15) OnEnd(w *World) []Violation { return m.viols }

// ---------------------------------------------------------------------------
// generator of injections

var badChange = []string{`{"values":{"a":[1]}}`, `{"values":{"a":{"x":1}}}`, `{"values":{"a":{"action":"x"}}}`, `{"values":{"a":{"rid":""}}}`, `{"values":{"a":{"rid":"t.*"}}}`,
	`{"values":{"a":{"rid":"t.b","data":1}}}`, `{"values":{"a":{"rid":"t.b","action":"delete"}}}`, `{"values":{"a":{"action":"delete","data":1}}}`, `{"values":[1]}`, `not json`, `[]`, `5`, `{"values":{"zz":1,"a":{"x":1}}}`,
	`{"values":{"zz":77,"yy":[]}}`, `{"a":[1]}`, `"x"`, `{"values":{"a":{"rid":5}}}`}
var badAdd = []string{`{"idx":-1,"value":1}`, `{"idx":999,"value":1}`, `{"idx":1.5,"value":1}`, `{"idx":0}`, `{"idx":0,"value":[1]}`, `{"idx":"0","value":1}`, `{"idx":0,"value":{"x":1}}`, `{"idx":0,"value":{"rid":"t..a"}}`,
	`{"idx":99999999999999999999,"value":1}`, `garbage`, `null`, `{"idx":0,"value":{"action":"delete"}}`}
var badRemove = []string{`{"idx":-1}`, `{"idx":99}`, `{"idx":0.5}`, `{"idx":"1"}`, `{}x`, `[0]`, `{"idx":-99999999999999999999}`}
var badQueryAnswer = []string{`{"result":{"events":[null]}}`, `{"result":{"events":[{"event":"change","data":{"values":{"a":[1]}}}]}}`, `{"result":{"events":[{"event":"add","data":{"idx":-1,"value":1}}]}}`,
	`{"result":{"model":{"a":[1]}}}`, `{"result":{"collection":5}}`, `{"result":{"collection":[[1]]}}`, `{"result":{}}`, `{}`, `garbage`, `{"result":{"events":5}}`, `{"result":{"events":[5]}}`,
	`{"result":{"events":[{"event":"remove","data":{"idx":99}}]}}`, `{"result":{"model":{"a":1},"collection":[1]}}`, `{"result":{"events":[],"model":{"a":1}}}`, `{"result":null}`, `{"result":{"events":[{}]}}`, `{"result":{"events":[{"event":"change"}]}}`,
	`{"result":{"events":[{"event":"change","data":{"values":{"zz":1}}},{"event":"change","data":{"values":{"a":[1]}}}]}}`}
var badGetAnswer = []string{`{"result":{"model":{"a":[1]}}}`, `{"result":{"collection":[{"x":1}]}}`, `{"result":{"model":{"a":1},"collection":[1]}}`, `{"result":{}}`, `{"result":null}`, `{}`, `garbage`, `{"result":{"model":5}}`,
	`{"result":{"collection":{"a":1}}}`, `{"result":{"model":{"a":{"rid":"t.*"}}}}`, `{"result":{"model":{"a":{"action":"delete"}}}}`, `{"result":{"collection":[null,{"action":"delete"}]}}`, `{"error":5}`, `{"error":{"code":5}}`, `[]`}
var badSystem = []string{`garbage`, `{"resources":5}`, `{"resources":[5]}`, `{"access":"x"}`, `[]`, `{"resources":[null]}`, `{"tids":5}`, `{"tids":["t1"],"subject":5}`, `{"tids":[5],"subject":"auth.t.x"}`, `{"tids":["t1"]}`, `5`}
var badFrames = []string{`garbage`, `[]`, `5`, `"x"`, `{}`, `{"id":-1,"method":"get.t.a"}`, `{"id":1.5,"method":"get.t.a"}`, `{"id":"1","method":"get.t.a"}`, `{"id":99999999999999999999999,"method":"get.t.a"}`,
	`{"method":"get.t.a"}`, `{"id":null,"method":"subscribe.t.a"}`, `{"id":77,"method":5}`, `{"id":78,"method":"subscribe.t.a","params":"x"}`, `{"id":79,"method":"unsubscribe.t.a","params":[1]}`, `{"id":80,"method":"version","params":5}`,
	`{"id":81,"method":"version","params":{"protocol":5}}`, `{"id":82,"method":"version","params":{"protocol":"1.x.3"}}`, `{"id":83,"method":"version","params":{"protocol":"999.0.0"}}`, `{"id":84,"method":"call.t.a.set","params":{"a":`, "\x00\xff", `{"id":85}`, `{"id":86,"method":null}`}
var badToken = []string{`garbage`, `{"token":}`, `[]`, `{"tid":5}`, `5`, `{"token":{"a":1},"tid":[1]}`, ``, ` `, `{"token":null,"tid":{}}`, `"tok"`, `nul`}

// Values of the two kinds, used to build malformed payloads by construction: a
// message with any number of well-formed parts and exactly one malformed part
// is malformed as a whole.
var goodValues = []string{`1`, `"s"`, `null`, `true`, `-0.5`, `{"rid":"t.a"}`, `{"rid":"t.b","soft":true}`, `{"data":{"a":[1]}}`, `{"data":[1,{"rid":"x"}]}`, `""`}
var badValues = []string{`[1]`, `{"x":1}`, `{}`, `{"action":"x"}`, `{"rid":""}`, `{"rid":"t.*"}`, `{"rid":"t..a"}`, `{"rid":5}`, `{"rid":"t.b","data":1}`, `{"rid":"t.b","action":"delete"}`,
	`{"action":"delete","data":1}`, `[]`, `{"rid":"t.>"}`, `{"rid":".t"}`, `{"rid":"t.a."}`, `{"soft":true}`, `{"rid":null}`}

// genBadObject builds a JSON object of 0-3 well-formed members and one malformed
// member at a drawn position. withDelete allows the delete action among the
// well-formed ones (change events only).
func (g *Gen) genBadObject(withDelete bool) string {
	n := rapid.IntRange(0, 3).Draw(g.t, "ngood")
	at := rapid.IntRange(0, n).Draw(g.t, "badat")
	keys := []string{"a", "b", "x", "q", "r", "zz", "yy", "k1"}
	var ms []string
	used := map[string]bool{}
	key := func() string {
		for {
			k := g.sample("okey", keys)
			if !used[k] {
				used[k] = true
				return k
			}
		}
	}
	for i := 0; i <= n; i++ {
		if i == at {
			ms = append(ms, `"`+key()+`":`+g.sample("badval", badValues))
		}
		if i < n {
			v := g.sample("goodval", goodValues)
			if withDelete && rapid.IntRange(0, 5).Draw(g.t, "del") == 0 {
				v = `{"action":"delete"}`
			}
			ms = append(ms, `"`+key()+`":`+v)
		}
	}
	return "{" + strings.Join(ms, ",") + "}"
}

// genBadArray builds a JSON array of 0-3 well-formed values and one malformed one.
func (g *Gen) genBadArray() string {
	n := rapid.IntRange(0, 3).Draw(g.t, "ngood")
	at := rapid.IntRange(0, n).Draw(g.t, "badat")
	var ms []string
	for i := 0; i <= n; i++ {
		if i == at {
			ms = append(ms, g.sample("badval", badValues))
		}
		if i < n {
			ms = append(ms, g.sample("goodval", goodValues))
		}
	}
	return "[" + strings.Join(ms, ",") + "]"
}

// drawBad returns a payload of the fixed pool, or (half of the time, where the
// class has a construction) a constructed one.
func (g *Gen) drawBad(class string, pool []string) string {
	if rapid.Bool().Draw(g.t, "constructed") {
		switch class {
		case "event/change":
			return `{"values":` + g.genBadObject(true) + `}`
		case "event/add":
			return `{"idx":0,"value":` + g.sample("badval", badValues) + `}`
		case "get/answer":
			if rapid.Bool().Draw(g.t, "coll") {
				return `{"result":{"collection":` + g.genBadArray() + `}}`
			}
			return `{"result":{"model":` + g.genBadObject(false) + `}}`
		case "query/answer":
			switch rapid.IntRange(0, 3).Draw(g.t, "qkind") {
			case 0:
				return `{"result":{"model":` + g.genBadObject(false) + `}}`
			case 1:
				return `{"result":{"collection":` + g.genBadArray() + `}}`
			case 2:
				return `{"result":{"events":[{"event":"change","data":{"values":` + g.genBadObject(true) + `}}]}}`
			default:
				return `{"result":{"events":[{"event":"add","data":{"idx":0,"value":` + g.sample("badval", badValues) + `}}]}}`
			}
		}
	}
	return g.sample("ipayload", pool)
}

// opInject injects one malformed message.
func (g *Gen) opInject(conns []*Client, pend []PendingView) {
	w := g.w
	var cs []choice
	names := g.names
	if len(names) > 0 {
		cs = append(cs, choice{10, func() {
			name := g.sample("iname", names)
			d := w.Svc.def(name)
			ev, pool, class := "change", badChange, "event/change"
			switch rapid.IntRange(0, 3).Draw(g.t, "ievkind") {
			case 1:
				ev, pool, class = "add", badAdd, "event/add"
			case 2:
				ev, pool, class = "remove", badRemove, "event/remove"
			case 3:
				// wrong kind for the resource
				if d != nil && d.Type == "model" {
					ev, pool, class = "add", []string{`{"idx":0,"value":1}`}, "event/wrongkind"
					if rapid.Bool().Draw(g.t, "rm") {
						ev, pool = "remove", []string{`{"idx":0}`}
					}
				} else {
					ev, pool, class = "change", []string{`{"values":{"a":1}}`}, "event/wrongkind"
				}
			}
			if class != "event/wrongkind" && d != nil {
				// valid-looking bad payloads only make sense on the matching kind; on the other kind they are inapplicable anyway
			}
			w.Exec(Op{K: "rawev", S: "event." + name + "." + ev, P: g.drawBad(class, pool), Key: "inject:" + class})
		}})
	}
	cs = append(cs, choice{3, func() {
		subj := g.sample("isys", []string{"system.reset", "system.tokenReset"})
		w.Exec(Op{K: "rawev", S: subj, P: g.sample("ipayload", badSystem), Key: "inject:system/" + subj[7:]})
	}})
	if len(conns) > 0 {
		cs = append(cs, choice{4, func() {
			c := g.conn(conns)
			w.Exec(Op{K: "craw", C: c.Idx, P: g.sample("iframe", badFrames), Key: "inject:frame"})
		}})
		cs = append(cs, choice{2, func() {
			c := g.conn(conns)
			if c.CID != "" {
				w.Exec(Op{K: "rawev", S: "conn." + c.CID + ".token", P: g.sample("itoken", badToken), Key: "inject:conn/token"})
			}
		}})
	}
	if len(pend) > 0 {
		cs = append(cs, choice{8, func() {
			pv := pend[rapid.IntRange(0, len(pend)-1).Draw(g.t, "ipending")]
			op := Op{K: "ans", S: pv.P.Subject, Q: pv.P.Query, A: actorEnc(pv.Actor), N: pv.Ord, O: "raw"}
			switch {
			case strings.HasPrefix(pv.P.Subject, "_EVQ."):
				op.P, op.Key = g.drawBad("query/answer", badQueryAnswer), "inject:query/answer"
			case strings.HasPrefix(pv.P.Subject, "get."):
				op.P = g.drawBad("get/answer", badGetAnswer)
				op.Key = "inject:get/answer"
				if g.isRefetch(pv) {
					op.Key = "inject:refetch/answer"
					// a well-formed answer of the other resource type, empty or not, is
					// malformed for a re-fetch of a resource that is loaded right now
					name := pv.P.Subject[4:]
					if js, loaded := cacheJSON(w)[name+"?"+pv.P.Query]; loaded && rapid.IntRange(0, 2).Draw(g.t, "othertype") == 0 {
						if strings.HasPrefix(js, "[") {
							op.P = g.sample("othertype", []string{`{"result":{"model":{}}}`, `{"result":{"model":{"a":1}}}`, `{"result":{"model":{},"query":"x"}}`})
						} else {
							op.P = g.sample("othertype", []string{`{"result":{"collection":[]}}`, `{"result":{"collection":[1,2]}}`, `{"result":{"collection":[],"query":"x"}}`})
						}
					}
				}
			case strings.HasPrefix(pv.P.Subject, "access."):
				op.P, op.Key = g.sample("ianswer", []string{`garbage`, `{"result":5}`, `{"result":{"get":"yes"}}`, `[]`, `{"result":{"get":true,"call":5}}`, `{"meta":5}`, `{"error":"x"}`,
					`{"meta":{"status":303}}`, `{"result":null,"meta":{"status":403}}`, `{"meta":{"status":404,"header":{"X":["y"]}}}`, `{"meta":{"status":200}}`, `{}`, `{"result":null}`}), "inject:access/answer"
			default:
				op.P, op.Key = g.sample("ianswer", []string{`garbage`, `{"resource":5}`, `{"resource":{"rid":5}}`, `{"resource":{"rid":"t.*"}}`, `{}`, `{"result":}`, `{"meta":{"status":"x"}}`, `{"error":{"code":5,"message":[]}}`}), "inject:call/answer"
			}
			w.Exec(op)
		}})
	}
	g.pick("injectkind", cs)
}

// isRefetch reports whether a pending get is a reset re-fetch (a get for the
// same name and query has been answered successfully before in this history).
func (g *Gen) isRefetch(pv PendingView) bool {
	for _, e := range g.w.Log() {
		if e.Kind == "mq_complete" && e.Subject == pv.P.Subject && e.Query == pv.P.Query && e.T < pv.P.At && e.Err == "" && strings.Contains(string(e.Payload), `"result"`) && !strings.Contains(string(e.Payload), `"error"`) {
			return true
		}
	}
	return false
}
