package natsrig

import (
	"encoding/json"
	"flag"
	"fmt"
	"os"
	"sort"
	"strings"
	"sync"
	"testing"
	"time"

	resnats "github.com/resgateio/resgate/nats"
	"github.com/resgateio/resgate/server/mq"
	"pgregory.net/rapid"
	"verif/harness/sim"
)

var (
	flagProp   = flag.String("verif.prop", "", "property")
	flagOut    = flag.String("verif.out", "", "output dir")
	flagShard  = flag.Int("verif.shard", 0, "shard")
	flagTier   = flag.String("verif.tier", "quick", "tier")
	flagReplay = flag.String("verif.replay", "", "replay file")
	_          = flag.Int("verif.reps", 1, "unused")
)

type nullLog struct{}

func (nullLog) Log(string)    {}
func (nullLog) Error(string)  {}
func (nullLog) Debug(string)  {}
func (nullLog) Trace(string)  {}
func (nullLog) IsDebug() bool { return false }
func (nullLog) IsTrace() bool { return false }

const (
	reqTimeout = 400 * time.Millisecond
	preExtend  = 1200 // ms, value of the timeout pre-response
	preReplyAt = 700 * time.Millisecond
)

// ReqSpec is one generated request.
type ReqSpec struct {
	Behaviour string `json:"b"`
	SubjLen   int    `json:"l,omitempty"` // total subject length for long-subject requests
	Payload   int    `json:"p"`           // payload size in bytes
}

// CaseSpec is one generated adapter case (also the replay format).
type CaseSpec struct {
	Reqs   []ReqSpec `json:"reqs"`
	Events int       `json:"events"`
	// EvStyle > 0: event payloads take every shape a service may publish (null,
	// true, bare words, pre-response look-alikes, empty), rotated by EvStyle;
	// 0 = decimal numbers. The subject carries the index either way.
	EvStyle int  `json:"evstyle,omitempty"`
	Drop    bool `json:"drop"`
	// DropMid > 0: the server drops the connection while that many requests are
	// pending (the first of them after a timeout pre-response when DropMidPre);
	// Close is not called: each must complete exactly once by its deadline
	DropMid int `json:"dropmid,omitempty"`
	// LossClose > 0: that many replies sit in the adapter's buffer (the listener
	// is held in an event callback) when the server drops the connection; the
	// closed handler's user calls Close, as the gateway does; the listener is
	// released. Nothing may crash and no request may complete twice.
	LossClose  int  `json:"lossclose,omitempty"`
	DropMidPre bool `json:"dropmidpre,omitempty"`
	SubLen     int  `json:"sublen,omitempty"` // length of a long namespace to Subscribe to (0 = none)
	// BusyUnsub > 0: that many events are queued inside the adapter behind a
	// callback that blocks the listener; the subscription is then unsubscribed
	BusyUnsub int `json:"busyunsub,omitempty"`
	// MaxPayload > 0: the server advertises this max_payload; larger requests
	// fail in the client library after the reply subscription was made
	MaxPayload int `json:"maxpayload,omitempty"`
}

type completion struct {
	kind string
	data string
	at   time.Time
}

type reqState struct {
	spec   ReqSpec
	subj   string
	sentAt time.Time
	preAt  time.Time
	mu     sync.Mutex
	comps  []completion
}

func kindOf(err error) string {
	switch err {
	case nil:
		return "reply"
	case mq.ErrRequestTimeout:
		return "timeout"
	case mq.ErrNoResponders:
		return "notfound"
	case mq.ErrSubjectTooLong:
		return "toolong"
	}
	return "other:" + err.Error()
}

func digits(n int) int { return len(fmt.Sprint(n)) }

// runCase runs one case against a fresh server and adapter; returns violations.
func runCase(cs CaseSpec) (viols []string, classes map[string]int) {
	classes = map[string]int{}
	srv, err := NewServer()
	if err != nil {
		return []string{"INCONCLUSIVE listen: " + err.Error()}, classes
	}
	defer srv.Close()
	srv.MaxPayload = cs.MaxPayload
	states := make([]*reqState, len(cs.Reqs))
	bySubj := map[string]*reqState{}
	var smu sync.Mutex
	var lcReplies []string
	srv.OnPub = func(p Pub) {
		smu.Lock()
		st := bySubj[p.Subject]
		smu.Unlock()
		if strings.HasPrefix(p.Subject, "call.t.lc") && p.Reply != "" {
			smu.Lock()
			lcReplies = append(lcReplies, p.Reply)
			smu.Unlock()
			return
		}
		if cs.DropMidPre && p.Subject == "call.t.drop0.x" && p.Reply != "" {
			srv.Publish(p.Reply, []byte(fmt.Sprintf(`timeout:"%d"`, preExtend)))
		}
		if st == nil || p.Reply == "" {
			return
		}
		reply := func(d time.Duration, data string) {
			if d == 0 {
				srv.Publish(p.Reply, []byte(data))
				return
			}
			time.AfterFunc(d, func() { srv.Publish(p.Reply, []byte(data)) })
		}
		ok := `{"result":"` + p.Subject[:min(len(p.Subject), 20)] + `"}`
		switch st.spec.Behaviour {
		case "reply", "long":
			reply(0, ok)
		case "multi":
			reply(0, ok)
			reply(0, `{"result":"second"}`)
			reply(5*time.Millisecond, `{"result":"third"}`)
		case "silent":
		case "late":
			reply(reqTimeout+300*time.Millisecond, ok)
		case "pre":
			st.mu.Lock()
			st.preAt = time.Now()
			st.mu.Unlock()
			srv.Publish(p.Reply, []byte(fmt.Sprintf(`timeout:"%d"`, preExtend)))
			reply(preReplyAt, ok)
		case "presilent":
			st.mu.Lock()
			st.preAt = time.Now()
			st.mu.Unlock()
			srv.Publish(p.Reply, []byte(fmt.Sprintf(`timeout:"%d"`, preExtend)))
		case "prebad":
			// a pre-response whose timeout does not parse, then silence: the
			// configured timeout stays in force
			bad := []string{`timeout:"abc"`, `timeout:""`, `timeout:"1.5s"`, `timeout:"99999999999999999999"`, `timeout:"-"`, `timeout:`}
			srv.Publish(p.Reply, []byte(bad[len(p.Subject)%len(bad)]))
		case "prebad2":
			// a valid pre-response followed by a malformed one, then silence: the
			// extended timeout stays in force
			st.mu.Lock()
			st.preAt = time.Now()
			st.mu.Unlock()
			srv.Publish(p.Reply, []byte(fmt.Sprintf(`timeout:"%d"`, preExtend)))
			srv.Publish(p.Reply, []byte(`timeout:"abc"`))
		case "pre2":
			srv.Publish(p.Reply, []byte(fmt.Sprintf(`timeout:"%d"`, preExtend)))
			time.AfterFunc(300*time.Millisecond, func() {
				st.mu.Lock()
				st.preAt = time.Now()
				st.mu.Unlock()
				srv.Publish(p.Reply, []byte(fmt.Sprintf(`timeout:"%d"`, preExtend)))
			})
		case "503":
			srv.PublishNoResponders(p.Reply)
		case "race":
			reply(reqTimeout, ok)
		}
	}
	closedCh := make(chan error, 4)
	cl := &resnats.Client{URL: srv.URL(), RequestTimeout: reqTimeout, Logger: nullLog{}, BufferSize: 8192}
	if err := cl.Connect(); err != nil {
		return []string{"INCONCLUSIVE connect: " + err.Error()}, classes
	}
	cl.SetClosedHandler(func(err error) { closedCh <- err })
	defer cl.Close()

	// event subscription
	var evMu sync.Mutex
	var evGot []string
	var unsub mq.Unsubscriber
	if cs.Events > 0 {
		u, err := cl.Subscribe("event.x", func(subj string, data []byte, _ error) {
			evMu.Lock()
			evGot = append(evGot, subj+"|"+string(data))
			evMu.Unlock()
		})
		if err != nil {
			viols = append(viols, "Subscribe(event.x) failed: "+err.Error())
		}
		unsub = u
	}
	if cs.SubLen > 0 {
		ns := "event." + strings.Repeat("s", cs.SubLen-6)
		// "SUB <ns>.* <sid>": sids are small integers here (< 1000)
		_, err := cl.Subscribe(ns, func(string, []byte, error) {})
		fitsForSure := len(ns)+2+1+20 <= MaxControlLine // whatever the subscription id
		cannotFit := len(ns)+2+1+1 > MaxControlLine
		classes["long_namespace"]++
		if cannotFit && err != mq.ErrSubjectTooLong {
			viols = append(viols, fmt.Sprintf("Subscribe with a namespace of %d bytes cannot fit a control line but returned %v", len(ns), err))
		}
		if fitsForSure && err != nil {
			viols = append(viols, fmt.Sprintf("Subscribe with a namespace of %d bytes fits a control line but returned %v", len(ns), err))
		}
	}
	if cs.LossClose > 0 {
		classes["loss_then_close_with_replies_buffered"]++
		return append(viols, lossThenClose(srv, cl, closedCh, cs.LossClose, &smu, &lcReplies)...), classes
	}
	if cs.DropMid > 0 {
		classes["drop_with_requests_pending"]++
		return append(viols, dropMidFlight(srv, cl, closedCh, cs.DropMid, cs.DropMidPre)...), classes
	}
	// requests, all in flight together
	var wg sync.WaitGroup
	for i, rs := range cs.Reqs {
		st := &reqState{spec: rs}
		st.subj = fmt.Sprintf("call.t.r%d.%s", i, rs.Behaviour)
		if rs.Behaviour == "long" && rs.SubjLen > len(st.subj) {
			st.subj += "." + strings.Repeat("x", rs.SubjLen-len(st.subj)-1)
		}
		states[i] = st
		smu.Lock()
		bySubj[st.subj] = st
		smu.Unlock()
	}
	for _, st := range states {
		st := st
		wg.Add(1)
		go func() {
			defer wg.Done()
			payload := []byte(`{"p":"` + strings.Repeat("y", max(0, st.spec.Payload-8)) + `"}`)
			st.spec.Payload = len(payload)
			st.sentAt = time.Now()
			cl.SendRequest(st.subj, payload, func(subj string, data []byte, err error) {
				st.mu.Lock()
				st.comps = append(st.comps, completion{kind: kindOf(err), data: string(data), at: time.Now()})
				st.mu.Unlock()
			})
		}()
	}
	wg.Wait()
	if cs.Events > 0 {
		// the SUB travels asynchronously: publish only once the server has seen it
		for w := time.Now(); time.Since(w) < 2*time.Second; {
			_, subs, _, _, _ := srv.Snapshot()
			seen := false
			for _, x := range subs {
				if x == "event.x.*" {
					seen = true
				}
			}
			if seen {
				break
			}
			time.Sleep(time.Millisecond)
		}
		for i := 0; i < cs.Events; i++ {
			srv.Publish(fmt.Sprintf("event.x.e%d", i), evPayload(cs.EvStyle, i))
		}
	}
	// wait until every request has completed or the longest possible deadline has passed
	deadline := time.Now().Add(time.Duration(preExtend)*time.Millisecond + 900*time.Millisecond)
	for time.Now().Before(deadline) {
		done := true
		for _, st := range states {
			st.mu.Lock()
			if len(st.comps) == 0 {
				done = false
			}
			st.mu.Unlock()
		}
		if done {
			break
		}
		time.Sleep(5 * time.Millisecond)
	}
	// let late replies / duplicates show up
	hasLate := false
	for _, st := range states {
		if st.spec.Behaviour == "late" || st.spec.Behaviour == "race" || st.spec.Behaviour == "multi" {
			hasLate = true
		}
		if cs.MaxPayload > 0 && st.spec.Payload > cs.MaxPayload {
			hasLate = true // a second completion (timeout) of a request that failed to publish would come now
		}
	}
	if hasLate {
		time.Sleep(reqTimeout + 450*time.Millisecond - minDur(reqTimeout+450*time.Millisecond, time.Since(states[0].sentAt)))
	}
	pubs, _, _, killed, reason := srv.Snapshot()
	if killed {
		lens := []string{}
		for _, st := range states {
			if st.spec.Behaviour == "long" {
				lens = append(lens, fmt.Sprintf("%d+payload %d", len(st.subj), st.spec.Payload))
			}
		}
		viols = append(viols, fmt.Sprintf("the adapter sent a line that made the server close the connection (%s); long subjects in this case: %v; long namespace %d", reason, lens, cs.SubLen))
		return viols, classes
	}
	written := map[string]bool{}
	for _, p := range pubs {
		written[p.Subject] = true
	}
	for i, st := range states {
		st.mu.Lock()
		comps := append([]completion(nil), st.comps...)
		preAt := st.preAt
		st.mu.Unlock()
		classes["behaviour_"+st.spec.Behaviour]++
		id := fmt.Sprintf("request %d (%s, subject %d bytes, payload %d bytes)", i, st.spec.Behaviour, len(st.subj), st.spec.Payload)
		if len(comps) != 1 {
			kinds := []string{}
			for _, c := range comps {
				kinds = append(kinds, c.kind)
			}
			viols = append(viols, fmt.Sprintf("%s completed %d times %v, expected exactly once", id, len(comps), kinds))
			continue
		}
		c := comps[0]
		el := c.at.Sub(st.sentAt)
		allowed := map[string]bool{}
		if cs.MaxPayload > 0 && st.spec.Payload > cs.MaxPayload && !(st.spec.Behaviour == "long" && len(st.subj)+1+29+1+digits(st.spec.Payload) > MaxControlLine) {
			// refused by the client library: completes once, with that error
			classes["payload_beyond_max_payload"]++
			if !strings.HasPrefix(c.kind, "other:") {
				viols = append(viols, fmt.Sprintf("%s exceeds max_payload %d but completed with %s", id, cs.MaxPayload, c.kind))
			}
			continue
		}
		switch st.spec.Behaviour {
		case "reply", "multi":
			allowed["reply"] = true
		case "silent", "late":
			allowed["timeout"] = true
		case "pre":
			allowed["reply"] = true
		case "presilent", "pre2", "prebad", "prebad2":
			allowed["timeout"] = true
		case "503":
			allowed["notfound"] = true
		case "race":
			allowed["reply"], allowed["timeout"] = true, true
		case "long":
			fits := len(st.subj)+1+29+1+digits(st.spec.Payload) <= MaxControlLine
			if fits {
				allowed["reply"] = true
			} else {
				allowed["toolong"] = true
				if written[st.subj] {
					viols = append(viols, fmt.Sprintf("%s cannot fit a control line but was written to the wire", id))
				}
			}
			if len(st.subj)+29 <= MaxControlLine && !fits {
				classes["long_between_guard_and_limit"]++
			}
		}
		if !allowed[c.kind] {
			viols = append(viols, fmt.Sprintf("%s completed with %s after %v, allowed: %v", id, c.kind, el, keys(allowed)))
			continue
		}
		if c.kind == "timeout" {
			// one-sided: a timeout is never earlier than the (extended) deadline
			min := reqTimeout
			from := st.sentAt
			if (st.spec.Behaviour == "presilent" || st.spec.Behaviour == "pre2" || st.spec.Behaviour == "prebad2") && !preAt.IsZero() {
				min = time.Duration(preExtend) * time.Millisecond
				from = preAt
			}
			if c.at.Sub(from) < min-2*time.Millisecond {
				viols = append(viols, fmt.Sprintf("%s timed out %v after the request/pre-response, earlier than the deadline of %v", id, c.at.Sub(from), min))
			}
		}
		if c.kind == "reply" && st.spec.Behaviour != "multi" && !strings.Contains(c.data, "result") {
			viols = append(viols, fmt.Sprintf("%s completed with unexpected data %q", id, c.data))
		}
		if c.kind == "reply" && st.spec.Behaviour == "multi" && !strings.Contains(c.data, "call.t") {
			viols = append(viols, fmt.Sprintf("%s completed with %q, which is not the first reply", id, c.data))
		}
	}
	if cs.Events > 0 && unsub != nil {
		time.Sleep(20 * time.Millisecond)
		evMu.Lock()
		got := append([]string(nil), evGot...)
		evMu.Unlock()
		if len(got) != cs.Events {
			viols = append(viols, fmt.Sprintf("%d events were published on the subscription, %d reached the callback", cs.Events, len(got)))
		}
		for i, g := range got {
			if want := fmt.Sprintf("event.x.e%d|%s", i, evPayload(cs.EvStyle, i)); g != want {
				viols = append(viols, fmt.Sprintf("events reached the callback out of publish order or changed: position %d is %q, published %q", i, g, want))
				break
			}
		}
		unsub.Unsubscribe()
		srv.Publish("event.x.after", []byte("after"))
		time.Sleep(20 * time.Millisecond)
		evMu.Lock()
		if len(evGot) != len(got) {
			viols = append(viols, "an event reached the callback after Unsubscribe had returned")
		}
		evMu.Unlock()
		classes["events"]++
	}
	if cs.BusyUnsub > 0 {
		viols = append(viols, busyUnsubscribe(srv, cl, cs.BusyUnsub)...)
		classes["unsubscribe_with_events_queued"]++
	}
	if cs.Drop {
		srv.Drop()
		select {
		case <-closedCh:
			classes["closed_handler"]++
		case <-time.After(3 * time.Second):
			viols = append(viols, "the server connection was dropped but the closed handler was not invoked within 3s")
		}
	}
	return viols, classes
}

// dropMidFlight: n requests are pending (nobody answers; the first gets a
// timeout pre-response if pre) when the server drops the connection. The
// adapter is not closed. Every request completes exactly once, by the time its
// (extended) timeout has elapsed.
func dropMidFlight(srv *Server, cl *resnats.Client, closedCh chan error, n int, pre bool) (viols []string) {
	var mu sync.Mutex
	comps := make([][]string, n)
	for i := 0; i < n; i++ {
		i := i
		cl.SendRequest(fmt.Sprintf("call.t.drop%d.x", i), []byte(`{}`), func(_ string, data []byte, err error) {
			mu.Lock()
			comps[i] = append(comps[i], kindOf(err))
			mu.Unlock()
		})
	}
	// the server has seen every request (and the adapter the pre-response)
	for w := time.Now(); time.Since(w) < 2*time.Second; {
		pubs, _, _, _, _ := srv.Snapshot()
		seen := 0
		for _, p := range pubs {
			if strings.HasPrefix(p.Subject, "call.t.drop") {
				seen++
			}
		}
		if seen >= n {
			break
		}
		time.Sleep(time.Millisecond)
	}
	if !srv.Barrier(2 * time.Second) {
		return []string{"INCONCLUSIVE barrier"}
	}
	srv.Drop()
	select {
	case <-closedCh:
	case <-time.After(3 * time.Second):
		viols = append(viols, "the server connection was dropped but the closed handler was not invoked within 3s")
	}
	wait := reqTimeout + 700*time.Millisecond
	if pre {
		wait = time.Duration(preExtend)*time.Millisecond + 700*time.Millisecond
	}
	deadline := time.Now().Add(wait)
	for time.Now().Before(deadline) {
		mu.Lock()
		done := true
		for _, c := range comps {
			if len(c) == 0 {
				done = false
			}
		}
		mu.Unlock()
		if done {
			break
		}
		time.Sleep(5 * time.Millisecond)
	}
	time.Sleep(50 * time.Millisecond)
	mu.Lock()
	defer mu.Unlock()
	for i, c := range comps {
		if len(c) != 1 {
			viols = append(viols, fmt.Sprintf("request %d was pending when the server dropped the connection and completed %d times %v by the time its timeout had elapsed, expected exactly once", i, len(c), c))
		}
	}
	return viols
}

// lossThenClose: see CaseSpec.LossClose.
func lossThenClose(srv *Server, cl *resnats.Client, closedCh chan error, n int, smu *sync.Mutex, replies *[]string) (viols []string) {
	entered, release := make(chan struct{}, 1), make(chan struct{})
	if _, err := cl.Subscribe("event.blk", func(string, []byte, error) {
		select {
		case entered <- struct{}{}:
		default:
		}
		<-release
	}); err != nil {
		return []string{"Subscribe(event.blk) failed: " + err.Error()}
	}
	var mu sync.Mutex
	comps := make([]int, n)
	for i := 0; i < n; i++ {
		i := i
		cl.SendRequest(fmt.Sprintf("call.t.lc%d.x", i), []byte(`{}`), func(string, []byte, error) {
			mu.Lock()
			comps[i]++
			mu.Unlock()
		})
	}
	for w := time.Now(); time.Since(w) < 2*time.Second; {
		smu.Lock()
		got := len(*replies)
		smu.Unlock()
		_, subs, _, _, _ := srv.Snapshot()
		seen := false
		for _, x := range subs {
			if x == "event.blk.*" {
				seen = true
			}
		}
		if got >= n && seen {
			break
		}
		time.Sleep(time.Millisecond)
	}
	srv.Publish("event.blk.go", []byte("1"))
	select {
	case <-entered:
	case <-time.After(2 * time.Second):
		close(release)
		return []string{"INCONCLUSIVE the blocking callback was not entered"}
	}
	smu.Lock()
	rs := append([]string(nil), (*replies)...)
	smu.Unlock()
	for _, r := range rs {
		srv.Publish(r, []byte(`{"result":"late"}`))
	}
	if !srv.Barrier(2 * time.Second) {
		close(release)
		return []string{"INCONCLUSIVE barrier"}
	}
	srv.Drop()
	select {
	case <-closedCh:
	case <-time.After(3 * time.Second):
		viols = append(viols, "the server connection was dropped but the closed handler was not invoked within 3s")
	}
	// Close waits for the listener, which is held in the callback: it is called
	// from its own goroutine (it has done its bookkeeping by the time the
	// listener is released)
	closed := make(chan struct{})
	go func() {
		cl.Close()
		close(closed)
	}()
	time.Sleep(30 * time.Millisecond)
	close(release)
	select {
	case <-closed:
	case <-time.After(3 * time.Second):
		viols = append(viols, "Close did not return within 3s of the listener being released")
	}
	time.Sleep(100 * time.Millisecond)
	mu.Lock()
	defer mu.Unlock()
	for i, c := range comps {
		if c > 1 {
			viols = append(viols, fmt.Sprintf("request %d completed %d times across a lost connection and Close", i, c))
		}
	}
	return viols
}

// busyUnsubscribe: the listener is held inside a callback while n events for
// another subscription arrive and queue up in the adapter; that subscription is
// unsubscribed; the listener is released. At most one event (one the listener
// had already taken when Unsubscribe was called - none here) may still reach
// the callback after Unsubscribe has returned.
func busyUnsubscribe(srv *Server, cl *resnats.Client, n int) (viols []string) {
	entered, release := make(chan struct{}, 1), make(chan struct{})
	blk, err := cl.Subscribe("event.blk", func(string, []byte, error) {
		select {
		case entered <- struct{}{}:
		default:
		}
		<-release
	})
	if err != nil {
		return []string{"Subscribe(event.blk) failed: " + err.Error()}
	}
	var mu sync.Mutex
	unsubscribed := false
	late := 0
	y, err := cl.Subscribe("event.y", func(string, []byte, error) {
		mu.Lock()
		if unsubscribed {
			late++
		}
		mu.Unlock()
	})
	if err != nil {
		close(release)
		return []string{"Subscribe(event.y) failed: " + err.Error()}
	}
	if !srv.Barrier(2 * time.Second) {
		close(release)
		return []string{"INCONCLUSIVE barrier"}
	}
	srv.Publish("event.blk.go", []byte("1"))
	select {
	case <-entered:
	case <-time.After(2 * time.Second):
		close(release)
		return []string{"INCONCLUSIVE the blocking callback was not entered"}
	}
	for i := 0; i < n; i++ {
		srv.Publish(fmt.Sprintf("event.y.e%d", i), []byte(fmt.Sprint(i)))
	}
	if !srv.Barrier(2 * time.Second) {
		close(release)
		return []string{"INCONCLUSIVE barrier"}
	}
	y.Unsubscribe()
	mu.Lock()
	unsubscribed = true
	mu.Unlock()
	close(release)
	srv.Barrier(2 * time.Second)
	time.Sleep(30 * time.Millisecond)
	blk.Unsubscribe()
	mu.Lock()
	defer mu.Unlock()
	if late > 0 {
		viols = append(viols, fmt.Sprintf("%d of %d events that were queued in the adapter when Unsubscribe was called reached the callback after Unsubscribe had returned (the listener was held in another callback, so none was in delivery)", late, n))
	}
	return viols
}

// evShapes: payloads a service may publish on an event subject. None of them
// is special there: pre-responses exist only on request inboxes.
var evShapes = []string{`null`, `{"values":{"a":1}}`, `true`, `timeout:"5000"`, `false`, ``, `x`, `[1]`, `"s"`, `timeout:"1"`, `-1`, `Timeout`, ` {"a":1}`, `{"idx":0}`}

func evPayload(style, i int) []byte {
	if style == 0 {
		return []byte(fmt.Sprint(i))
	}
	return []byte(evShapes[(i+style)%len(evShapes)])
}

func keys(m map[string]bool) []string {
	var r []string
	for k := range m {
		r = append(r, k)
	}
	sort.Strings(r)
	return r
}

func minDur(a, b time.Duration) time.Duration {
	if a < b {
		return a
	}
	return b
}

func genCase(t *rapid.T) CaseSpec {
	var cs CaseSpec
	n := rapid.IntRange(5, 40).Draw(t, "nreq")
	behs := []string{"reply", "reply", "multi", "silent", "late", "pre", "presilent", "pre2", "prebad", "prebad2", "503", "race", "long", "long"}
	for i := 0; i < n; i++ {
		r := ReqSpec{Behaviour: rapid.SampledFrom(behs).Draw(t, "behaviour")}
		r.Payload = rapid.SampledFrom([]int{9, 10, 99, 100, 999, 1000, 9999, 12000}).Draw(t, "payload")
		if r.Behaviour == "long" {
			if rapid.IntRange(0, 3).Draw(t, "far") == 0 {
				r.SubjLen = rapid.IntRange(4200, 9000).Draw(t, "len")
			} else {
				r.SubjLen = rapid.IntRange(4040, 4110).Draw(t, "len")
			}
		}
		cs.Reqs = append(cs.Reqs, r)
	}
	if rapid.Bool().Draw(t, "events") {
		cs.Events = rapid.IntRange(1, 60).Draw(t, "nevents")
		if rapid.Bool().Draw(t, "evshapes") {
			cs.EvStyle = rapid.IntRange(1, len(evShapes)).Draw(t, "evstyle")
		}
	}
	if rapid.IntRange(0, 3).Draw(t, "smallmax") == 0 {
		cs.MaxPayload = rapid.SampledFrom([]int{512, 1024, 5000}).Draw(t, "maxpayload")
	}
	if rapid.IntRange(0, 2).Draw(t, "busyunsub") == 0 {
		cs.BusyUnsub = rapid.IntRange(1, 20).Draw(t, "nqueued")
	}
	cs.Drop = rapid.IntRange(0, 2).Draw(t, "drop") == 0
	if rapid.IntRange(0, 9).Draw(t, "lossclose") == 0 {
		cs.LossClose = rapid.IntRange(1, 4).Draw(t, "lossclosen")
	}
	if rapid.IntRange(0, 7).Draw(t, "dropmid") == 0 {
		cs.DropMid = rapid.IntRange(1, 5).Draw(t, "dropmidn")
		cs.DropMidPre = rapid.Bool().Draw(t, "dropmidpre")
	}
	if rapid.IntRange(0, 3).Draw(t, "sublong") == 0 {
		cs.SubLen = rapid.IntRange(4080, 4100).Draw(t, "sublen")
	}
	return cs
}

func TestAdapter(t *testing.T) {
	if *flagProp != "C18" {
		t.Skip()
	}
	env := sim.NewEnv("C18", *flagOut, *flagShard, *flagTier)
	defer env.Write()
	rapid.Check(t, func(rt *rapid.T) {
		cs := genCase(rt)
		// the case in progress, for the driver to attribute a crash of the process
		cur := ""
		if *flagOut != "" {
			os.MkdirAll(*flagOut, 0o755)
			cur = fmt.Sprintf("%s/current-%d.json", *flagOut, *flagShard)
			cb, _ := json.MarshalIndent(map[string]interface{}{"property": "C18", "engine": "natsrig", "class": "crash", "message": "the process crashed while this case ran", "case": cs}, "", " ")
			os.WriteFile(cur, cb, 0o644)
		}
		viols, classes := runCase(cs)
		if cur != "" {
			os.Remove(cur)
		}
		b, _ := json.Marshal(cs)
		kinds := map[string]bool{}
		special := false
		for _, r := range cs.Reqs {
			kinds[r.Behaviour] = true
			if strings.HasPrefix(r.Behaviour, "pre") || r.Behaviour == "race" {
				special = true
			}
		}
		env.Record(string(b), len(kinds) >= 3 && special, classes)
		var real []string
		for _, v := range viols {
			if strings.HasPrefix(v, "INCONCLUSIVE") {
				env.Inconclusive(v)
				return
			}
			real = append(real, v)
		}
		if len(real) > 0 {
			env.Stats.Violations++
			rf := map[string]interface{}{"property": "C18", "engine": "natsrig", "class": "adapter", "message": real[0], "case": cs, "all": real}
			fb, _ := json.MarshalIndent(rf, "", " ")
			if *flagOut != "" {
				os.MkdirAll(*flagOut, 0o755)
				os.WriteFile(fmt.Sprintf("%s/fail-%d.json", *flagOut, *flagShard), fb, 0o644)
			}
			rt.Fatalf("VIOLATION C18 class=adapter: %s", strings.Join(real, "\n  "))
		}
	})
}

// TestReplay re-runs a saved adapter case.
func TestReplay(t *testing.T) {
	if *flagReplay == "" {
		t.Skip()
	}
	b, err := os.ReadFile(*flagReplay)
	if err != nil {
		t.Fatal(err)
	}
	var rf struct {
		Case CaseSpec `json:"case"`
	}
	if err := json.Unmarshal(b, &rf); err != nil {
		t.Fatal(err)
	}
	viols, _ := runCase(rf.Case)
	fails := 0
	for _, v := range viols {
		if !strings.HasPrefix(v, "INCONCLUSIVE") {
			if fails == 0 {
				fmt.Printf("REPLAY-VIOLATION property=C18\n")
			}
			fmt.Printf("  C18 class=adapter: %s\n", v)
			fails++
		}
	}
	fmt.Printf("REPLAY-SUMMARY fails=%d reps=1\n", b2i(fails > 0))
	if fails > 0 {
		t.Fail()
	}
}

func b2i(b bool) int {
	if b {
		return 1
	}
	return 0
}

// TestShrink reduces a failing adapter case by dropping requests.
func TestShrink(t *testing.T) {
	if *flagReplay == "" {
		t.Skip()
	}
	b, err := os.ReadFile(*flagReplay)
	if err != nil {
		t.Fatal(err)
	}
	var rf map[string]interface{}
	var cs struct {
		Case CaseSpec `json:"case"`
	}
	json.Unmarshal(b, &rf)
	json.Unmarshal(b, &cs)
	cur := cs.Case
	failing := func(c CaseSpec) bool {
		v, _ := runCase(c)
		for _, x := range v {
			if !strings.HasPrefix(x, "INCONCLUSIVE") {
				return true
			}
		}
		return false
	}
	if !failing(cur) {
		fmt.Println("SHRINK-NOREPRO")
		t.Fail()
		return
	}
	for chunk := len(cur.Reqs) / 2; chunk >= 1; chunk /= 2 {
		for i := 0; i+chunk <= len(cur.Reqs); {
			cand := cur
			cand.Reqs = append(append([]ReqSpec(nil), cur.Reqs[:i]...), cur.Reqs[i+chunk:]...)
			if len(cand.Reqs) > 0 && failing(cand) {
				cur = cand
			} else {
				i += chunk
			}
		}
	}
	for _, f := range []func(c *CaseSpec){func(c *CaseSpec) { c.Events = 0 }, func(c *CaseSpec) { c.Drop = false }, func(c *CaseSpec) { c.SubLen = 0 }} {
		cand := cur
		f(&cand)
		if failing(cand) {
			cur = cand
		}
	}
	rf["case"] = cur
	v, _ := runCase(cur)
	if len(v) > 0 {
		rf["message"] = v[0]
	}
	out, _ := json.MarshalIndent(rf, "", " ")
	dst := *flagOut
	if dst == "" {
		dst = *flagReplay + ".min.json"
	}
	os.WriteFile(dst, out, 0o644)
	fmt.Printf("SHRINK-OK reqs=%d file=%s\n  %v\n", len(cur.Reqs), dst, v)
}
