// Package natsrig contains a scriptable fake NATS server speaking the client
// text protocol, used to decide the adapter contract (C18) against the real
// nats/nats.go adapter without a nats-server binary.
package natsrig

import (
	"bufio"
	"fmt"
	"net"
	"strconv"
	"strings"
	"sync"
	"time"
)

// MaxControlLine is the limit nats-server 2.6.6 applies to the argument part of
// PUB/HPUB/SUB lines (everything between the verb and CRLF).
const MaxControlLine = 4096

// Pub is a message published by the client.
type Pub struct {
	Subject string
	Reply   string
	Data    []byte
	At      time.Time
}

// Server is the fake NATS server (one client connection at a time).
type Server struct {
	ln   net.Listener
	mu   sync.Mutex
	conn net.Conn
	w    *bufio.Writer
	subs map[string]string // sid -> subject
	// OnPub is called (on the reader goroutine) for every PUB the client sends.
	OnPub      func(p Pub)
	Pubs       []Pub
	Subs       []string // every SUB subject seen, in order
	Unsubs     []string
	Killed     bool // the server closed the connection because of a protocol violation
	KillReason string
	closed     bool
	wg         sync.WaitGroup
	pongs      chan struct{}
	// MaxPayload is advertised in INFO (0 = 1 MiB); the client library refuses
	// larger payloads itself. Set it before the client connects.
	MaxPayload int
}

// NewServer starts listening on a loopback port.
func NewServer() (*Server, error) {
	ln, err := net.Listen("tcp", "127.0.0.1:0")
	if err != nil {
		return nil, err
	}
	s := &Server{ln: ln, subs: map[string]string{}, pongs: make(chan struct{}, 64)}
	s.wg.Add(1)
	go s.accept()
	return s, nil
}

// Barrier sends PING and waits for the client's PONG: the client's reader has
// then taken in everything the server wrote before.
func (s *Server) Barrier(d time.Duration) bool {
	for {
		select {
		case <-s.pongs:
			continue
		default:
		}
		break
	}
	s.write("PING\r\n")
	select {
	case <-s.pongs:
		return true
	case <-time.After(d):
		return false
	}
}

// URL returns the nats:// URL of the server.
func (s *Server) URL() string { return "nats://" + s.ln.Addr().String() }

func (s *Server) accept() {
	defer s.wg.Done()
	for {
		c, err := s.ln.Accept()
		if err != nil {
			return
		}
		s.mu.Lock()
		s.conn = c
		s.w = bufio.NewWriter(c)
		s.subs = map[string]string{}
		mp := s.MaxPayload
		if mp <= 0 {
			mp = 1048576
		}
		s.w.WriteString(fmt.Sprintf(`INFO {"server_id":"FAKE","server_name":"fake","version":"2.6.6","proto":1,"headers":true,"max_payload":%d}`, mp) + "\r\n")
		s.w.Flush()
		s.mu.Unlock()
		s.wg.Add(1)
		go s.serve(c)
	}
}

func (s *Server) kill(c net.Conn, reason string) {
	s.mu.Lock()
	s.Killed = true
	s.KillReason = reason
	if s.w != nil {
		s.w.WriteString("-ERR '" + reason + "'\r\n")
		s.w.Flush()
	}
	s.mu.Unlock()
	c.Close()
}

func (s *Server) serve(c net.Conn) {
	defer s.wg.Done()
	r := bufio.NewReaderSize(c, 1<<16)
	for {
		line, err := r.ReadString('\n')
		if err != nil {
			return
		}
		line = strings.TrimRight(line, "\r\n")
		sp := strings.IndexByte(line, ' ')
		verb, args := line, ""
		if sp >= 0 {
			verb, args = line[:sp], line[sp+1:]
		}
		switch strings.ToUpper(verb) {
		case "CONNECT":
		case "PING":
			s.write("PONG\r\n")
		case "PONG":
			select {
			case s.pongs <- struct{}{}:
			default:
			}
		case "SUB":
			if len(args) > MaxControlLine {
				s.kill(c, "Maximum Control Line Exceeded")
				return
			}
			f := strings.Fields(args)
			if len(f) < 2 {
				s.kill(c, "Unknown Protocol Operation")
				return
			}
			s.mu.Lock()
			s.subs[f[len(f)-1]] = f[0]
			s.Subs = append(s.Subs, f[0])
			s.mu.Unlock()
		case "UNSUB":
			f := strings.Fields(args)
			if len(f) >= 1 {
				s.mu.Lock()
				s.Unsubs = append(s.Unsubs, s.subs[f[0]])
				delete(s.subs, f[0])
				s.mu.Unlock()
			}
		case "PUB", "HPUB":
			if len(args) > MaxControlLine {
				s.kill(c, "Maximum Control Line Exceeded")
				return
			}
			f := strings.Fields(args)
			if len(f) < 2 {
				s.kill(c, "Unknown Protocol Operation")
				return
			}
			n, err := strconv.Atoi(f[len(f)-1])
			if err != nil {
				s.kill(c, "Bad payload size")
				return
			}
			buf := make([]byte, n+2)
			if _, err := readFull(r, buf); err != nil {
				return
			}
			p := Pub{Subject: f[0], Data: buf[:n], At: time.Now()}
			if (verb == "PUB" && len(f) == 3) || (verb == "HPUB" && len(f) == 4) {
				p.Reply = f[1]
			}
			s.mu.Lock()
			s.Pubs = append(s.Pubs, p)
			cb := s.OnPub
			s.mu.Unlock()
			if cb != nil {
				cb(p)
			}
		default:
			s.kill(c, "Unknown Protocol Operation")
			return
		}
	}
}

func readFull(r *bufio.Reader, buf []byte) (int, error) {
	n := 0
	for n < len(buf) {
		k, err := r.Read(buf[n:])
		n += k
		if err != nil {
			return n, err
		}
	}
	return n, nil
}

func (s *Server) write(str string) {
	s.mu.Lock()
	defer s.mu.Unlock()
	if s.w != nil {
		s.w.WriteString(str)
		s.w.Flush()
	}
}

func matches(pattern, subject string) bool {
	pt := strings.Split(pattern, ".")
	st := strings.Split(subject, ".")
	for i, p := range pt {
		if p == ">" {
			return len(st) > i
		}
		if i >= len(st) {
			return false
		}
		if p != "*" && p != st[i] {
			return false
		}
	}
	return len(pt) == len(st)
}

// Publish delivers a message to every matching subscription of the client.
func (s *Server) Publish(subject string, data []byte) int {
	s.mu.Lock()
	defer s.mu.Unlock()
	n := 0
	if s.w == nil {
		return 0
	}
	for sid, pat := range s.subs {
		if matches(pat, subject) {
			fmt.Fprintf(s.w, "MSG %s %s %d\r\n", subject, sid, len(data))
			s.w.Write(data)
			s.w.WriteString("\r\n")
			n++
		}
	}
	s.w.Flush()
	return n
}

// PublishNoResponders delivers an empty 503 status message (no responders).
func (s *Server) PublishNoResponders(subject string) {
	s.mu.Lock()
	defer s.mu.Unlock()
	if s.w == nil {
		return
	}
	hdr := "NATS/1.0 503\r\n\r\n"
	for sid, pat := range s.subs {
		if matches(pat, subject) {
			fmt.Fprintf(s.w, "HMSG %s %s %d %d\r\n%s\r\n", subject, sid, len(hdr), len(hdr), hdr)
		}
	}
	s.w.Flush()
}

// Drop closes the client connection (server loss).
func (s *Server) Drop() {
	s.mu.Lock()
	c := s.conn
	s.mu.Unlock()
	if c != nil {
		c.Close()
	}
}

// Close stops the server.
func (s *Server) Close() {
	s.mu.Lock()
	s.closed = true
	c := s.conn
	s.mu.Unlock()
	s.ln.Close()
	if c != nil {
		c.Close()
	}
	s.wg.Wait()
}

// Snapshot returns copies of the recorded traffic.
func (s *Server) Snapshot() (pubs []Pub, subs, unsubs []string, killed bool, reason string) {
	s.mu.Lock()
	defer s.mu.Unlock()
	return append([]Pub(nil), s.Pubs...), append([]string(nil), s.Subs...), append([]string(nil), s.Unsubs...), s.Killed, s.KillReason
}
