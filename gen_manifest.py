#!/usr/bin/env python3
# Generates MANIFEST.json from checks_table.py (run after editing the table).
import json, sys
sys.path.insert(0, "/verif")
from checks_table import CHECKS, NOT_APPLICABLE, META

checks = []
for pid in sorted(CHECKS):
    spec = CHECKS[pid]
    m = META[pid]
    checks.append({
        "property_id": pid,
        "quick_cmd": "./check %s quick" % pid,
        "thorough_cmd": "./check %s thorough" % pid,
        "evidence_file": "evidence/%s.json" % pid,
        "replay_cmd_template": "./check --replay {path}",
        "engine": m["engine"],
        "level_claimed": {"category": spec["level"], "text": m["text"], "design_ref": m["design_ref"]},
        "level_note": m["note"],
        "technique": m["technique"],
    })
manifest = {
    "version": 1,
    "setup_cmd": "./check --setup",
    "hooks": {
        "guard": "verif",
        "enable": "go test -c -tags verif (harness module with replace github.com/resgateio/resgate => /repo)",
        "baseline_off_cmd": "cd /repo && go test -count=1 ./...",
        "source_commits": ["1dcddfe", "a396677", "7168d08", "388d7f4"],
        "add_only": True,
    },
    "engines": [
        {"name": "sim", "path": "harness/sim", "serves_properties": sorted(p for p in CHECKS if META[p]["engine"] == "sim"),
         "kind_free_text": "world simulator: real gateway between a mock messaging client and in-process WebSocket/HTTP clients, rapid stateful generation of scripts, reference client/service oracles, exact quiescence from goroutine dumps, script-level delta-debugging shrinker"},
        {"name": "unit", "path": "harness/unit", "serves_properties": ["C05", "C12", "C14", "C15", "C19"],
         "kind_free_text": "pure-function property tests (rapid) with reference implementations, exhaustive small-scope enumeration of the collection diff, native go fuzz targets"},
        {"name": "natsrig", "path": "harness/natsrig", "serves_properties": ["C18"],
         "kind_free_text": "scriptable fake NATS server (client text protocol, control-line limit as nats-server 2.6.6) driving the real nats/nats.go adapter"},
    ],
    "checks": checks,
    "not_applicable": [{"property_id": k, "reason": v} for k, v in sorted(NOT_APPLICABLE.items())],
    "notes": "Technique family: property-based testing / fuzzing only (pgregory.net/rapid v1.3.0 stateful generation, native go fuzzing in thorough tiers). See DESIGN.md.",
}
json.dump(manifest, open("/verif/MANIFEST.json", "w"), indent=1)
print("wrote MANIFEST.json with", len(checks), "checks")
