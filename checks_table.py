# Per-property check configuration for the driver.

def sim(quick, thorough, qshards=12, tshards=14, qtimeout=200, **kw):
    d = {"engine": "sim", "quick": {"cases": quick, "shards": qshards, "timeout": qtimeout}, "thorough": {"cases": thorough, "shards": tshards, "timeout": 1500}}
    d.update(kw)
    return d

def unit(target, quick, thorough, shards=2, **kw):
    d = {"engine": "unit", "test": "TestUnit", "prop": target, "quick": {"cases": quick, "shards": shards, "timeout": 60}, "thorough": {"cases": thorough, "shards": 4, "timeout": 600}}
    d.update(kw)
    return d

def fuzz(name, secs):
    return {"engine": "unit", "fuzz": name, "quick": {"secs": 0}, "thorough": {"secs": secs}}

A_SIM = [
    "the mock messaging client mirrors the contract of nats/nats.go (decided separately by C18)",
    "goroutine schedules inside the gateway are sampled, not enumerated; message order at both boundaries is owned by the harness",
    "quiescence = every goroutine parked at a whitelisted idle point in a stop-the-world goroutine dump",
]

CHECKS = {
    "C01": {
        "level": "exploration",
        "rule": "rapid stateful generation over drawn resource graphs (models/collections, shared children, cycles, self references, error child, soft references, data values, one query resource): 1-3 clients with drawn protocol versions subscribe/unsubscribe/get/call-with-resource, answers in any order, mutate-and-announce incl. reference changes, custom/delete/reaccess/query events, silent mutations + system.reset; EOH epilogue answers everything and resets dirty resources; oracle: every client copy (built only from frames) equals the state the reference service last announced, per protocol-version encoding. Change events may introduce two references at once; aliasing bursts in the event profile. Non-trivial = a state event reached the gateway while a client held the resource AND (answers out of request order | reference changed | reset/query derived events | resource shared by >=2 clients); distinct by script hash",
        "assumptions": A_SIM,
        "parts": [sim(300, 5000)],
    },
    "C02": {
        "level": "exploration",
        "rule": "same generator as C01 weighted towards graphs and unsubscribe/reference-removal while parents load; oracle: reference client with reachability-based retention checks after every frame: no dangling non-soft reference, no event for a resource not held, change only on models, add/remove only on collections with index in bounds, successful subscribe/resource response leaves data. The reference client reads values by its protocol version (below 1.2.1 every object with a rid is a reference). Bursts: a get of a tree that shares a child with a pending subscribe. Non-trivial = a resource was handed to the client again after the client dropped it, or dropped while a request whose response later carried it was outstanding, or a reference-carrying event arrived after a drop; distinct by script hash",
        "assumptions": A_SIM + ["clients follow the protocol: they unsubscribe only what was confirmed to them"],
        "parts": [sim(700, 6000)],
    },
    "C03": {
        "level": "exploration",
        "rule": "C01 generator with dense sequence-numbered custom events around queue/unqueue causes (loading references, access re-checks, query-event locks, reset re-fetches); oracle: per client/rid/holding episode the custom sequence numbers form a contiguous run of the sequence delivered to the gateway, no event before the hand-over, model change events never repeated back-to-back, and the episode open at EOH reaches the last delivered event. An event for a resource that no response or event has ever carried to the client is a violation (a get response shows resources, it does not hand them over). A held resource that has received none of its custom events is owed every one that reached the gateway after its hand-over. One change event may introduce two references. Non-trivial = an episode received >=3 custom events; distinct by script hash",
        "assumptions": A_SIM,
        "parts": [sim(300, 5000)],
    },
    "C04": {
        "level": "exploration",
        "rule": "rapid stateful generation of every read path (subscribe, get, new, call/auth resource response, HTTP GET) x access outcomes (grant, get:false, missing result, RES error, timeout, no responders) x answer orders x token events, reaccess events and system.reset access patterns at any step; oracle over the boundary log: every frame handing a root resource needs an access answer for that connection/resource with get:true that was valid at the decision step (no trigger between the answer and a later request that reuses it); a first request whose access answer is not a grant must get that error. With the connection hook: once a subscribe, get or resource request for a resource has failed on a connection, the gateway counts no more direct subscriptions to it there than the client has confirmed plus requests in flight. Bursts: a resource held directly and below a parent is deleted, a trigger follows, the client asks again. Non-trivial = a denial and a grant for the same connection+resource in one history, or a trigger between grant and data; distinct by script hash",
        "assumptions": A_SIM + ["decision-time validity (DESIGN 3.6): a trigger that lands after the verdict was taken but before the data frame creates a C06 obligation instead"],
        "parts": [sim(300, 5000)],
    },
    "C05": {
        "level": "exploration",
        "rule": "rapid stateful generation of call/new over WebSocket and POST/PUT/DELETE over HTTP on subscribed (cached verdict) and unsubscribed resources with call lists whose entries are prefixes/suffixes of the methods, token events, reaccess events and matching resets at any step; oracle over the boundary log: every call.* request has a governing access answer of that connection granting the method (* or exact list entry) that no trigger invalidated before the decision step; a granted call is not refused; every access/call/auth payload carries the connection's most recent token. Methods include names with commas (valid in a method, an entry of no list). Unit part: Access.CanCall against the split oracle for generated lists and methods, including the whole list and runs of its entries as the method. HTTP POST methods with an escaped dot; token events without the token member. A fifth of the configurations use headerAuth; token events go to the connection of an HTTP request that is being served, and must be received (nothing may stop listening before the request is answered). Non-trivial = a trigger lies between the access request and a call decided on its cached answer (sim), a list entry that contains or is contained in the method (unit); distinct by script hash",
        "assumptions": A_SIM,
        "parts": [sim(300, 5000), unit("C05-cancall", 40000, 400000)],
    },
    "C06": {
        "level": "exploration",
        "rule": "rapid stateful generation of token events (repeated, null), reaccess events and system.reset access patterns at every step relative to loading, queued events and pending re-checks, with dense custom events; oracle: for each trigger and each (connection, rid) directly subscribed: an access re-request with the current token follows, a non-grant verdict yields an unsubscribe event with that reason in the verdict's step, and no custom event that reached the gateway after the trigger is framed before the verdict. At the quiescent end no subscription still holds events back waiting for a verdict (hook queue flag). A trigger that arrives while the subscription already waits for an earlier re-check needs an access request of its own (the pending one carries the old token). Non-trivial = events reached the gateway inside a re-check window; distinct by script hash",
        "assumptions": A_SIM + ["no obligation is asserted for a token event that follows a null token"],
        "parts": [sim(300, 5000)],
    },
    "C09": {
        "level": "exploration",
        "rule": "rapid stateful generation of subscribe/unsubscribe/get/call/disconnect from 1-4 WebSocket connections plus HTTP requests, get errors, delete events, query normalisation, a resource name whose event subject exceeds the control line, requests still in flight when the last subscriber leaves, re-subscription within a 20 ms eviction delay (hook) with sleep ops; oracle: trace invariants on the boundary log (every get under a live event subscription established earlier; data handed to clients only under a subscription uninterrupted since the get answer; no Unsubscribe while a client holds the resource or a request is pending), hook invariant use count = subscribers + pending requests at every quiescent step, and the end state after closing everything (no event/conn subscriptions, both cache gauges zero, a fresh subscribe fetches anew). Aliasing bursts (two raw queries of one normalised query in flight, the second answered first, a query event in between that may be answered notFound). Non-trivial = an event subscription was released and established again, or a request outlived the subscription; distinct by script hash",
        "assumptions": A_SIM,
        "parts": [sim(300, 5000)],
    },
    "C12": {
        "level": "exploration",
        "rule": "(a) pattern matcher differential: rapid-generated patterns and names over the token alphabet {a,b,ab,*,>,?,space,e-acute,empty,a*,*a,...} and raw strings, ParseResourcePattern/IsValid/Match against a tokenising reference matcher; (b) collection diff: rapid-generated pairs of sequences (length <= 40, repeated values, b derived from a by edits) and the exhaustive enumeration of all pairs of sequences of length <= 5 over 3 values (132,496 pairs, exhaustive sub-run), events applied by an independent applier must have every index in range, yield exactly b, and be empty for a == b; (c) simulator: system.reset with generated pattern lists against caches with plain and query variants. A matching cached resource whose initial get is still outstanding is fetched exactly once more. Non-trivial = valid wildcard pattern with a well-formed name / a != b with a repeated value / reset with wildcard hitting both matching and non-matching cached names; distinct by input hash",
        "assumptions": ["the reference matcher and the event applier are the trusted oracles", "VerifLCS (hook) calls the unexported lcs routine unchanged"],
        "parts": [sim(200, 3000, qshards=8, tshards=10), unit("C12-pattern", 60000, 600000), unit("C12-lcs", 30000, 300000), {"engine": "unit", "test": "TestExhaustiveLCS", "prop": "C12-lcs-exhaustive", "quick": {"cases": 1, "shards": 1, "timeout": 60}, "thorough": {"cases": 1, "shards": 1, "timeout": 60}}, fuzz("FuzzPattern", 60)],
    },
    "C14": {
        "level": "exploration",
        "rule": "(a) unit: rapid-generated rids, method strings and URL paths over hostile tokens (control bytes, space, CR LF, * > ?, empty tokens, leading/trailing dots, percent-encodings, non-ASCII) for IsValidRID/IsValidRIDPart, rpc.HandleRequest with a recording requester, PathToRID/RIDToPath against reference implementations; (b) simulator: the same hostile grammar as WebSocket methods and HTTP paths (three apiPath prefixes, PUT/DELETE mappings), {cid} rids, queries containing dots and wildcards, and service answers carrying invalid resource ids; oracle: every subject given to Subscribe/SendRequest (other than ones a service supplied verbatim) is clean, equals type.name[.method] for the reference-decoded rid, rejected inputs get system.invalidRequest/404 and cause no service traffic in their step. Service events (change, legacy change, add) carrying references that are no valid resource ids are never followed. Non-trivial = input contains a byte outside [A-Za-z0-9.] and reaches the validity decision / a percent-encoded path; distinct by input or script hash",
        "assumptions": A_SIM + ["inputs the HTTP layer itself rejects (net/http request-line parsing) never reach the gateway and are not judged"],
        "parts": [sim(250, 4000, qshards=8, tshards=10), unit("C14-rid", 40000, 400000), unit("C14-method", 40000, 400000), unit("C14-path", 40000, 400000), fuzz("FuzzRID", 60)],
    },
    "C15": {
        "level": "exploration",
        "rule": "(a) unit: every codec decoder, Value.UnmarshalJSON and rpc.HandleRequest on rapid-generated bytes and grammar-generated/cut JSON over the protocol's key set (no panic; an error comes with a nil result; accepted values are proper; accepted resource ids are valid; meta header keys canonical), native fuzzing in thorough; (b) simulator: in generated valid histories, messages from explicit invalidity classes (syntax errors, wrong JSON types, negative/huge/fractional idx, add/remove on model, change on collection, other type on re-fetch, rid+data, rid+action, action+data, unknown action, bare object/array values, invalid/empty rids, null array elements, one bad value among good ones, partly valid query answers) injected as client frame, event, get/access/call/query answer, system or connection event at any step; oracle: the process survives (journal attribution), the injection step yields no event frame and (hook) leaves the cached JSON of every resource unchanged, later valid messages still converge (C01 oracle) and every request is still answered (C07 oracle). Malformed payloads are also built by construction (any number of well-formed members and exactly one malformed one at a drawn position; a re-fetch answered with a well-formed resource of the other type, empty or not; zero-byte and truncated token events); a malformed resource, system or connection event causes no service request. Access answers with a meta status and neither result nor error; decoder oracle: DecodeAccessResponse returns a result or an error. Non-trivial = the injected message is syntactically valid JSON; distinct by script/input hash",
        "assumptions": A_SIM + ["byte-level fuzzing only waits for crashes and decoder contract breaches; semantic containment is checked for the enumerated invalidity classes"],
        "parts": [sim(300, 5000), unit("C15-decode", 60000, 600000), fuzz("FuzzDecoders", 90)],
    },
    "C13": {
        "level": "exploration",
        "rule": "rapid stateful generation over two query resources (model and collection) with drawn normalisation maps (raw = normalised, several raws aliasing one normalised query, a non-query base answering with a query), subscriptions from 1-3 connections with both aliasing gets in flight in either answer order, query events answered with events / full model or collection / error / notFound / timeout per query in any order, further events, resets and subscriptions inside the window; oracle: no get for a raw query already fetched and linked (within a cache incarnation, resets and deletes considered); on a query event exactly one query request per distinct loaded normalised query (hook pre-state); no get.<n> while query requests for n are outstanding; plus the C01 convergence oracle per alias rid and the C07 every-request-answered oracle (processing always resumes). A query request answered with system.notFound delivers, in that step, the delete event on every rid held under a settled subscription. Non-trivial = two raw queries share a normalised query and a query event occurred with >= 2 cached queries; distinct by script hash",
        "assumptions": A_SIM + ["timeouts are the adapter's completion with system.timeout, not elapsed time"],
        "parts": [sim(300, 5000)],
    },
    "C19": {
        "level": "exploration",
        "rule": "(a) unit: rescache.Throttle with limits 1-4 under rapid-generated Add/Done sequences against a queue model (running <= limit, FIFO starts, every Done with waiters starts exactly one, everything added eventually starts); (b) simulator scenarios with resetThrottle / referenceThrottle N in {0,1,2,3,5}: reset fan-outs over 1-40 cached resources and 1-32 connections (many connections on one resource) with resource and/or access patterns, optionally a second overlapping reset; reference trees of width/depth <= 4 with shared and cyclic children, one root per connection; answers oldest-first, newest-first or drawn; oracle: at every quiescent step the governed requests outstanding are <= N (x throttles alive), with N = 0 all are sent at once, and at the end every governed request was sent (exact count for a single reset) and every client request answered. Reference gets are answered with errors and timeouts in a drawn share of the cases (every answer frees the place). Non-trivial = fan-out > N > 0 with an answer order other than arrival order; distinct by script hash",
        "assumptions": A_SIM + ["the bound is tight (N) for a single reset / single loading root; for overlapping resets it is N x live throttles"],
        "parts": [sim(150, 2500), unit("C19-throttle", 3000, 40000)],
    },
    "C16": {
        "level": "exploration",
        "rule": "rapid-generated resource graphs of up to 6 models/collections plus an error leaf and a query resource (shared children, cycles of any length, self references, soft references, nested data values, keys and strings needing JSON escaping), both API encodings, three apiPath prefixes; GET (and HEAD) on drawn resources with everything answered, POST with result / null / resource response; oracle: body parses as JSON and equals an independent recursive reference renderer (path-based cycle cut, error placeholders, data unwrapped, href mapping back to the rid through the reference path decoder), status 200 + Content-Type, HEAD has the same status and headers, POST returns the result verbatim / 204 / Location. Query variants of one name reference each other (pagination) and the plain name; a failed reference is compared as the whole error (code, message, data), with drawn custom messages and data. A GET/HEAD pair for a resource whose own get fails with a drawn error code: HEAD equals GET. Non-trivial = the expansion contains a nested reference; distinct by script hash",
        "assumptions": A_SIM + ["graphs are static while a request is served"],
        "parts": [sim(400, 6000)],
    },
    "C17": {
        "level": "exploration",
        "rule": "rapid-generated HTTP requests (GET/HEAD/POST/PUT/DELETE/PATCH/OPTIONS) against allow-lists of 1-3 origins or *, with and without header authentication and method mappings, Origin headers derived from listed origins (exact, upper/lower case, one byte more or less, non-ASCII look-alike, null, foreign), and auth/access/call answers carrying error codes (all pre-defined plus custom) and meta objects with any of 17 status values and header names in any letter case incl. the protected ones and multi-valued Set-Cookie; oracle: status = table(error code in the body), meta status honoured iff 300-599 and then no later service request, Content-Type / Access-Control-Allow-Origin / -Credentials equal what the configuration implies, no Sec-WebSocket-* header, all Set-Cookie values present, a disallowed origin gets 403 before any service request, OPTIONS always 200 without service request echoing only listed origins. Non-trivial = a meta with a protected header or an origin that is a near miss of a listed one; distinct by script hash",
        "assumptions": A_SIM + ["allow-lists are printable ASCII origins as the configuration documents"],
        "parts": [sim(400, 6000)],
    },
    "C10": {
        "level": "exploration",
        "rule": "rapid stateful generation with 2-4 WebSocket connections plus HTTP requests, distinct tokens and token ids, {cid} tags in resource names, in the middle of names, in queries and in references returned by the service, token events, token resets, events on per-connection resources; oracle over the logs: requests caused by a connection's own frame/request/token event carry that connection's id, every access/call/auth payload carries that connection's current token, no subject or query made for one connection contains another connection's id, no frame or HTTP body sent to any client contains any connection id, events on a {cid} resource reach only its owner, a token reset produces exactly one auth request per connection whose token id is listed; plus the applicability oracle of C02. Token resets also name the empty token id (which addresses nobody). Events on a connection's subject other than the token event (nothing happens, whatever the payload). HTTP response headers (the Location of a resource response) are scanned for connection ids as well. Non-trivial = >= 2 connections, a {cid} resource in use and a token-related event; distinct by script hash",
        "assumptions": A_SIM + ["cid leakage is a substring scan: a transformed cid would not be recognised"],
        "parts": [sim(300, 5000)],
    },
    "C11": {
        "level": "fault_enumeration",
        "rule": "rapid generates base histories (4-16 ops after an optional prologue of established subscriptions; C01 generator incl. calls, token resets, resets with access patterns; a third with resetThrottle/referenceThrottle 1-2 so that work can be waiting inside a throttle); for each base of n ops and each of its (up to 3) connections, n+1 variants close that connection before op k, each run in a fresh gateway (evaluations = base + variant runs); oracle: the connection-event subscription is released in the step of the close, no access/call/auth request carrying that connection id is issued in any later step (incl. after token resets and throttle hand-offs), the other connections still get every response (C07 oracle) and converge (C01 oracle), and after closing everything the cache is empty (C09 end state and use-count invariant). A request made for the closing connection within the close step itself counts as one after the disconnect when the close is the step's only stimulus; bursts leave an access re-check deferred behind an event that waits for an unloaded reference, with filler subscriptions in between (the disposal walks a map). The close also races every kind of service event of the base history (a token reset repeated 30 times in its race group). Non-trivial = the connection had an unanswered service request or client request when it was closed; distinct by variant script hash",
        "assumptions": A_SIM + ["gets are anonymous at the messaging boundary: for them only the cache clean-up is asserted", "aborting an HTTP request mid-flight is not modelled"],
        "parts": [sim(14, 220, qtimeout=300)],
    },
    "C20": {
        "level": "fault_enumeration",
        "rule": "rapid generates base histories (3-12 ops after an optional prologue; idle connections, outstanding subscribe/get/call requests, pending evictions with a 20 ms delay); for each base of n ops and each fault in {Stop(nil), loss of the messaging connection (closed handler invoked from its own goroutine)}, n+1 variants inject the fault before op k in a fresh gateway, followed by a WebSocket dial, an HTTP GET, Start, a new connection subscribing, and the final Stop; oracle: every client socket reads EOF in the fault's step, the stop channel delivers the cause (nil / the lost-connection error), the dial after the fault is not upgraded, the HTTP request gets 503, Stop returns (a Stop that has not returned after 30 s is a deadlock), nothing crashes (journal), no goroutine is left behind, and the restarted service serves the subscribe. After the restart a second fault (loss or Stop, alternating) strikes and the service is started once more: every fault cycle is held to the statement. A fifth of the cases listen on real loopback ports (API, and metrics in half of them): the ports refuse connections after every fault and accept them after every Start. Fault kind restart (Stop and Start in one step); Stop and loss also race the answers of outstanding calls. Clients may stop reading their socket (the connection worker then sits in a write when the fault strikes): no frame reaches such a client after Stop has returned. Non-trivial = a service request or client request was outstanding when the fault struck; distinct by variant script hash",
        "assumptions": A_SIM + ["base histories contain no HTTP request outstanding at the fault (the 3 s / 5 s shutdown constants cannot be shortened)", "TLS is not exercised; real listeners only in the fifth of the cases that listen on loopback"],
        "parts": [sim(18, 190, qtimeout=300)],
    },
    "C18": {
        "level": "exploration",
        "rule": "the unmodified nats/nats.go adapter against a scriptable fake NATS server on loopback that enforces the control-line limit exactly as nats-server 2.6.6 does (argument part of PUB/HPUB/SUB > 4096 bytes => -ERR and connection closed); rapid generates 5-40 concurrent requests per case, each with a wire behaviour (one reply, several replies, silence, late reply, timeout pre-response followed by reply / silence / a second pre-response, empty 503, reply racing the deadline, subjects of every length in a band around the limit and far beyond with payload sizes of 1-5 digits), an event burst on a subscription, a long namespace Subscribe, and a server disconnect; oracle: exactly one completion per request, of a kind the behaviour allows, never a timeout earlier than the configured or extended deadline (one-sided), subjects that cannot fit complete with subjectTooLong and are never written, the server never has to drop the connection, events arrive in publish order and none after Unsubscribe returned, disconnect invokes the closed handler. Event payloads take every shape a service may publish (null, true, bare words, pre-response look-alikes, empty); the server also drops the connection while 1-5 requests are pending (one optionally after a pre-response): each completes exactly once without Close. Loss of the connection with replies buffered behind a held listener, then Close (as the gateway does): no crash (the case in progress is recorded so that a crash of the process is attributed), no double completion. Malformed timeout pre-responses (not a number, empty, overflowing) followed by silence leave the timeout in force. Non-trivial = the case mixes >= 3 behaviours incl. a pre-response or a race; distinct by case hash",
        "assumptions": ["real time: the only time-based verdicts are one-sided (a timeout earlier than the deadline)", "the fake server implements the subset of the NATS client protocol the adapter uses; its control-line rule was read from nats-server 2.6.6 parser.go"],
        "parts": [{"engine": "natsrig", "test": "TestAdapter", "prop": "C18", "quick": {"cases": 14, "shards": 16, "timeout": 120}, "thorough": {"cases": 150, "shards": 16, "timeout": 1200}}],
    },
    "C07": {
        "level": "exploration",
        "rule": "rapid stateful generation of request mixes (1-2 connections, subscribe/get/unsubscribe/call/auth/new/ill-formed methods, every outcome and order of the dependent access/get/call answers, events, deletes, revocations), end-of-history epilogue answering everything; oracle: reference client counts responses per id (never two, never unknown, error objects with string code/message) and at quiescence every id on an open connection has exactly one. Frames with a method but no id (or a null id) are sent for every action: nothing answers them. Call and auth answers also carry both a result and a resource, nothing at all, or a resource and an error. Non-trivial = >=2 requests for one rid overlapped, or an unsubscribe/unsubscribe event/delete hit a rid with a pending request; distinct by hash of the executed script",
        "assumptions": A_SIM,
        "parts": [sim(750, 7000)],
    },
    "C08": {
        "level": "exploration",
        "rule": "rapid stateful generation of subscribe/unsubscribe(count variants)/get/call-with-resource sequences on 1-2 rids with every outcome of the underlying access/get, bursts up to and beyond the 256 limit; oracle: per-connection counter model (successful subscribe and resource responses minus successful unsubscribes, zero at unsubscribe events) judging every unsubscribe response with the lo/hi reading, exact end-of-history probes (count=lo+1 must fail, count=lo must succeed), and the evaluated-afresh rule in a quiet world. Unsubscribe counts around and beyond the integer limits (2^31, 2^63, 2^64, fractions). Non-trivial = a failed request or a get is followed by a request on the same rid, or a quiet-world probe ran; distinct by hash of the executed script",
        "assumptions": A_SIM + ["an unsubscribe that succeeds against counts of in-flight requests makes exact accounting for that rid undefined; it is skipped from then on (DESIGN 3.6)"],
        "parts": [sim(300, 4000)],
    },
}

SIM_NOTE = "trusted: the harness (mock mq, reference client/service, quiescence detector) and rapid; exploration never proves absence; goroutine interleavings inside the gateway are sampled only"

META = {
    "C18": {"engine": "natsrig", "design_ref": "6 C18", "technique": "property-based testing (rapid) of the real NATS adapter against a scriptable in-process server with generated per-request wire behaviours and faults",
            "text": "the adapter has no tests in the repository; generated concurrent request mixes with every reply behaviour, boundary-length subjects and server loss are checked for exactly-one completion of an allowed kind.", "note": "trusted: the fake server's fidelity to the NATS client protocol; timing verdicts are one-sided only"},
    "C20": {"engine": "sim", "design_ref": "6 C20", "technique": "fault enumeration over rapid-generated base histories: Stop / messaging loss injected before every step, each variant judged by shutdown and restart oracles",
            "text": "every step of every generated base history is a fault point for Stop and for messaging loss; disconnection of all clients, refusal of new work, reporting of the cause, termination of Stop and restartability are asserted per variant.", "note": SIM_NOTE},
    "C11": {"engine": "sim", "design_ref": "6 C11", "technique": "fault enumeration over rapid-generated base histories: a disconnect injected before every step of every base, each variant judged by trace invariants and the end-state oracle",
            "text": "every step of every generated base history is a disconnect point for each connection; clean-up, absence of later requests on its behalf, and unaffected other connections are asserted per variant.", "note": SIM_NOTE},
    "C10": {"engine": "sim", "design_ref": "6 C10", "technique": "stateful property-based testing (rapid); trace invariants attributing every request, subject, token and frame to its connection",
            "text": "multi-connection histories with {cid} resources and token traffic; every outbound request and every client frame is scanned for foreign ids and tokens.", "note": SIM_NOTE},
    "C16": {"engine": "sim", "design_ref": "6 C16", "technique": "property-based differential testing (rapid): generated resource graphs rendered through the real HTTP handler vs an independent reference renderer",
            "text": "the hand-written encoders are compared with a reference renderer on generated graphs for both encodings and all path prefixes.", "note": SIM_NOTE},
    "C17": {"engine": "sim", "design_ref": "6 C17", "technique": "property-based testing (rapid) of generated HTTP requests, service errors and meta objects against the status table and header/CORS rules",
            "text": "generated origins, metas and error codes through the real handler; status, headers and absence of service traffic are compared with the rules of the statement.", "note": SIM_NOTE},
    "C19": {"engine": "sim", "design_ref": "6 C19", "technique": "scenario-based property testing (rapid) with a step invariant on outstanding governed requests and stall detection at exact quiescence; model-based unit test of Throttle",
            "text": "generated topologies, limits and answer orders; the bound is an invariant checked after every answer, progress is checked as the absence of a stall.", "note": SIM_NOTE},
    "C13": {"engine": "sim", "design_ref": "6 C13", "technique": "stateful property-based testing (rapid) with trace invariants on query/get requests and the convergence and exactly-one-response oracles",
            "text": "generated aliasing-query histories with every answer order and outcome of the query requests; the capacity-countdown lock is attacked through stall detection at exact quiescence.", "note": SIM_NOTE},
    "C15": {"engine": "sim", "design_ref": "6 C15", "technique": "fault-injecting stateful property-based testing (rapid) with journal-based crash attribution, decoder property tests and native fuzzing",
            "text": "malformed messages from enumerated invalidity classes are injected at every boundary at drawn steps of valid histories; crash, leak, cache change, divergence or stall is a violation.", "note": SIM_NOTE},
    "C14": {"engine": "sim", "design_ref": "6 C14", "technique": "property-based differential testing (rapid) of the validators and decoders against references, plus stateful generation of hostile requests with a subject-hygiene invariant on the messaging boundary; native fuzzing in thorough",
            "text": "for-all-inputs claim over three scanners and two path decoders: checked differentially on grammar-generated hostile inputs and end-to-end on every subject the gateway emits.", "note": SIM_NOTE},
    "C12": {"engine": "unit", "design_ref": "6 C12", "technique": "property-based differential testing (rapid) against reference matcher / edit-script applier, exhaustive small-scope enumeration, native fuzzing",
            "text": "pattern matching and the collection diff are for-all-inputs claims: checked differentially on generated inputs, exhaustively on the small scope, and (thorough) by coverage-guided fuzzing.", "note": "trusted: reference matcher, applier, rapid"},
    "C09": {"engine": "sim", "design_ref": "6 C09", "technique": "stateful property-based testing (rapid); trace invariants on the messaging boundary plus end-state and use-count checks",
            "text": "generated subscribe/unsubscribe/disconnect/delete/error histories incl. names beyond the control-line limit and a 20 ms eviction delay; invariants: get only under an earlier live subscription, data only under an uninterrupted one, no release while used, everything released at the end, use count = subscribers + pending requests at every quiescent point.", "note": SIM_NOTE + "; the production delay of 5 s is replaced by 0 or 20 ms (hook)"},
    "C04": {"engine": "sim", "design_ref": "6 C04", "technique": "stateful property-based testing (rapid); trace invariant linking data frames to valid access grants",
            "text": "every data-bearing response of generated histories is matched against the access answers and triggers recorded at the messaging boundary.", "note": SIM_NOTE},
    "C05": {"engine": "sim", "design_ref": "6 C05", "technique": "stateful property-based testing (rapid); trace invariant linking call requests to valid grants and current tokens",
            "text": "every forwarded call is matched against the governing access answer (method granted, not invalidated) and every cid-carrying payload against the connection's current token.", "note": SIM_NOTE},
    "C06": {"engine": "sim", "design_ref": "6 C06", "technique": "stateful property-based testing (rapid); obligation tracking per trigger over the boundary and frame logs",
            "text": "each trigger creates obligations (re-request, revocation on denial, no event leak before the verdict) that are discharged against the logs.", "note": SIM_NOTE},
    "C01": {"engine": "sim", "design_ref": "6 C01", "technique": "stateful property-based testing (rapid) with a reference service and reference client; oracle = model equality at quiescence",
            "text": "generated multi-client histories over generated resource graphs; at exact quiescence each client's accumulated copy equals the reference service's last announced state under the negotiated encoding.", "note": SIM_NOTE},
    "C02": {"engine": "sim", "design_ref": "6 C02", "technique": "stateful property-based testing (rapid); per-frame applicability invariant of a reachability-based reference client",
            "text": "every frame of every generated history is applied to a protocol-following reference client that asserts applicability (no dangling references, no stray or wrong-kind events, indexes in bounds).", "note": SIM_NOTE},
    "C03": {"engine": "sim", "design_ref": "6 C03", "technique": "stateful property-based testing (rapid); history invariant over sequence-numbered events per holding episode",
            "text": "sequence-numbered custom events are injected around every queue/unqueue cause; per holding episode they must form a contiguous, ordered, duplicate-free run that reaches the last delivered event.", "note": SIM_NOTE},
    "C07": {"engine": "sim", "design_ref": "6 C07", "technique": "stateful property-based testing (rapid) against a reference-client response counter",
            "text": "generated request mixes with overlapping requests per resource and every dependent-answer order; at exact quiescence every id has exactly one well-formed response. Exploration: thousands of distinct overlapping histories per run, no proof of absence.",
            "note": SIM_NOTE},
    "C08": {"engine": "sim", "design_ref": "6 C08", "technique": "stateful property-based testing (rapid) against a per-connection counter model with end-of-history probes",
            "text": "generated subscribe/unsubscribe/get/resource-response sequences; each unsubscribe response is judged by the counter model, the final count is pinned exactly by probes, and requests in a quiet world must reach the services afresh.",
            "note": SIM_NOTE},
}

_ALL = ["C%02d" % i for i in range(1, 21)]
NOT_APPLICABLE = {p: "check not built yet (work in progress; see DESIGN.md section 10)" for p in _ALL if p not in CHECKS}
