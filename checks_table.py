# Per-property check configuration for the driver.

def sim(quick, thorough, qshards=12, tshards=14, **kw):
    d = {"engine": "sim", "quick": {"cases": quick, "shards": qshards}, "thorough": {"cases": thorough, "shards": tshards, "timeout": 1500}}
    d.update(kw)
    return d

A_SIM = [
    "the mock messaging client mirrors the contract of nats/nats.go (decided separately by C18)",
    "goroutine schedules inside the gateway are sampled, not enumerated; message order at both boundaries is owned by the harness",
    "quiescence = every goroutine parked at a whitelisted idle point in a stop-the-world goroutine dump",
]

CHECKS = {
    "C07": {
        "level": "exploration",
        "rule": "rapid stateful generation of request mixes (1-2 connections, subscribe/get/unsubscribe/call/auth/new/ill-formed methods, every outcome and order of the dependent access/get/call answers, events, deletes, revocations), end-of-history epilogue answering everything; oracle: reference client counts responses per id (never two, never unknown, error objects with string code/message) and at quiescence every id on an open connection has exactly one. Non-trivial = >=2 requests for one rid overlapped, or an unsubscribe/unsubscribe event/delete hit a rid with a pending request; distinct by hash of the executed script",
        "assumptions": A_SIM,
        "parts": [sim(450, 6000)],
    },
    "C08": {
        "level": "exploration",
        "rule": "rapid stateful generation of subscribe/unsubscribe(count variants)/get/call-with-resource sequences on 1-2 rids with every outcome of the underlying access/get, bursts up to and beyond the 256 limit; oracle: per-connection counter model (successful subscribe and resource responses minus successful unsubscribes, zero at unsubscribe events) judging every unsubscribe response with the lo/hi reading, exact end-of-history probes (count=lo+1 must fail, count=lo must succeed), and the evaluated-afresh rule in a quiet world. Non-trivial = a failed request or a get is followed by a request on the same rid, or a quiet-world probe ran; distinct by hash of the executed script",
        "assumptions": A_SIM + ["an unsubscribe that succeeds against counts of in-flight requests makes exact accounting for that rid undefined; it is skipped from then on (DESIGN 3.6)"],
        "parts": [sim(300, 4000)],
    },
}

SIM_NOTE = "trusted: the harness (mock mq, reference client/service, quiescence detector) and rapid; exploration never proves absence; goroutine interleavings inside the gateway are sampled only"

META = {
    "C07": {"engine": "sim", "design_ref": "6 C07", "technique": "stateful property-based testing (rapid) against a reference-client response counter",
            "text": "generated request mixes with overlapping requests per resource and every dependent-answer order; at exact quiescence every id has exactly one well-formed response. Exploration: thousands of distinct overlapping histories per run, no proof of absence.",
            "note": SIM_NOTE},
    "C08": {"engine": "sim", "design_ref": "6 C08", "technique": "stateful property-based testing (rapid) against a per-connection counter model with end-of-history probes",
            "text": "generated subscribe/unsubscribe/get/resource-response sequences; each unsubscribe response is judged by the counter model, the final count is pinned exactly by probes, and requests in a quiet world must reach the services afresh.",
            "note": SIM_NOTE},
}

_ALL = ["C%02d" % i for i in range(1, 21)]
NOT_APPLICABLE = {p: "check not built yet (work in progress; see DESIGN.md section 10)" for p in _ALL if p not in CHECKS}
